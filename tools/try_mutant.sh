#!/bin/bash
# usage: tools/try_mutant.sh <patch.diff> <property> [quick|thorough]
# Applies the patch to a scratch worktree of /repo (never to /repo itself: other runs may be reading
# it), runs the check against that copy (VERIF_REPO), and removes the worktree's changes again.
set -u
patch=$(readlink -f "$1"); prop=$2; tier=${3:-quick}
slot=${MUT_SLOT:-0}
wt=/var/tmp/vt/repo-mut-$slot
if [ ! -d "$wt/.git" ] && [ ! -f "$wt/.git" ]; then
  git -C /repo worktree add --detach "$wt" HEAD -q || exit 9
fi
git -C "$wt" checkout -q --detach "$(git -C /repo rev-parse HEAD)" 2>/dev/null
git -C "$wt" checkout -- . && git -C "$wt" clean -fdq
git -C "$wt" apply "$patch" || { echo "patch does not apply"; exit 9; }
cd /verif
VERIF_REPO="$wt" VERIF_REPLAY_DIR=/var/tmp/vt/mutreplays ./check "$prop" "$tier" 2>&1 | grep -E "VIOLATION|INCONCLUSIVE|KNOWN|held on|phase=" | cut -c1-400
rc=${PIPESTATUS[0]}
git -C "$wt" checkout -- . && git -C "$wt" clean -fdq
echo "rc=$rc"
