#!/usr/bin/env python3
"""Confirm a seeded mutant in its scratch worktree and file it under /verif/seeded/.
usage: confirm_mutant.py <PROP> <k> <caught_by comma list|none> [note]
Checks: demo passes on the clean worktree; with the patch: module builds, the stable baseline tests
of the touched package pass, demo fails."""
import json, os, re, shutil, subprocess, sys
prop, k = sys.argv[1], sys.argv[2]
caught = [] if sys.argv[3] == "none" else sys.argv[3].split(",")
note = sys.argv[4] if len(sys.argv) > 4 else ""
out, wt = f"/tmp/out-{prop}", f"/tmp/wt-{prop}"
meta = json.load(open(f"{out}/meta{k}.json"))
env = dict(os.environ, GOFLAGS="-mod=mod", GOPROXY="off", GOSUMDB="off", GOTOOLCHAIN="local")
def sh(cmd, cwd=wt, timeout=900):
    p = subprocess.run(cmd, shell=True, cwd=cwd, env=env, stdout=subprocess.PIPE, stderr=subprocess.STDOUT, text=True, timeout=timeout)
    return p.returncode, p.stdout
def clean():
    sh("git checkout -- . && git clean -fdq")
demo = [f for f in os.listdir(out) if f.startswith(f"demo{k}")][0]
m = re.search(r"cp OUT/\S+ (?:WT/)?(\S+)", meta["demo_cmd"])
dest = m.group(1)
pkg = "./" + os.path.dirname(dest)
run = re.search(r"-run '?([^' ]+)'?", meta["demo_cmd"]).group(1)
tags = "-tags integration " if "integration" in meta["demo_cmd"] else ""
if "-race" in meta["demo_cmd"]:
    tags += "-race "
stable = json.load(open("/var/tmp/vt/stable.json"))
res = {}
clean()
os.makedirs(os.path.dirname(f"{wt}/{dest}"), exist_ok=True)
shutil.copy(f"{out}/{demo}", f"{wt}/{dest}")
rc, o = sh(f"go test {tags}-count=1 -timeout 300s -run '{run}' {pkg}")
res["demo_on_clean_tree"] = "pass" if rc == 0 else "FAIL"
rc, o = sh(f"git apply {out}/patch{k}.diff")
assert rc == 0, o
os.makedirs(os.path.dirname(f"{wt}/{dest}"), exist_ok=True)
shutil.copy(f"{out}/{demo}", f"{wt}/{dest}")
rc, o = sh("go build ./... && go vet " + pkg)
res["builds_with_patch"] = rc == 0
pk = os.path.dirname(meta["files"][0])
names = stable.get(pk, [])
if names:
    rc, o = sh(f"go test -count=1 -timeout 600s -run '^({'|'.join(names)})$' ./{pk}")
    res["existing_tests_with_patch"] = "pass" if rc == 0 else "FAIL: " + o[-400:]
rc, o = sh(f"go test {tags}-count=1 -timeout 300s -run '{run}' {pkg}")
res["demo_with_patch"] = "fail (as intended)" if rc != 0 else "PASSES (mutant not demonstrated)"
clean()
ok = res["demo_on_clean_tree"] == "pass" and res["builds_with_patch"] and res.get("existing_tests_with_patch", "pass") == "pass" and res["demo_with_patch"].startswith("fail")
print(json.dumps(res, indent=1), "CONFIRMED" if ok else "REJECTED")
if ok:
    rnd = os.environ.get("ROUND", "")
    d = f"/verif/seeded/{prop}-{k}" if not rnd else f"/verif/seeded/{prop}-r{rnd}-{k}"
    os.makedirs(d, exist_ok=True)
    shutil.copy(f"{out}/patch{k}.diff", f"{d}/patch.diff")
    shutil.copy(f"{out}/{demo}", f"{d}/{demo}")
    meta.update(breaks=prop, verified=res, demo_placement=dest, caught_by=caught, note=note,
                what_i_ran=f"tools/confirm_mutant.py (demo on clean worktree, patch + build + stable tests + demo) and tools/try_mutant.sh {d}/patch.diff <check> quick")
    json.dump(meta, open(f"{d}/meta.json", "w"), indent=1)
