#!/usr/bin/env python3
"""Rewrites section 9 of DESIGN.md from seeded/*/meta.json."""
import json, os, re, glob
root = os.path.dirname(os.path.dirname(os.path.abspath(__file__)))
rows = []
asbuilt = {}
for d in sorted(glob.glob(os.path.join(root, "seeded", "*"))):
    m = json.load(open(os.path.join(d, "meta.json")))
    name = os.path.basename(d)
    summ = re.sub(r"\s+", " ", m.get("summary", ""))[:230]
    needs = re.sub(r"\s+", " ", m.get("needs", ""))[:200]
    note = m.get("note", "")
    caught = ", ".join(m.get("caught_by", [])) or "none"
    first = "after strengthening" if note.startswith("missed at first") else "as built"
    if not m.get("caught_by"):
        first = "on purpose: judged outside the statement, see meta.json"
        if m.get("obsolete"):
            first = "no longer a fault on the repaired tree (" + m["obsolete"].split(":")[0] + "); caught by " + ", ".join(m.get("caught_by_before", [])) + " before"
    asbuilt[name] = (bool(m.get("caught_by")) or bool(m.get("obsolete"))) and not note.startswith("missed at first")
    rows.append(f"| {name} | {', '.join(os.path.basename(f) for f in m.get('files', []))} | {summ} | {needs} | {caught} ({first}) |")
hand = """
Hand-made changes applied while the checks were built (each killed by the quick tier, then reverted):
C05: per-node delta `=` instead of `+=`; common total overwritten instead of max. C07: ready-to-send set
on a same-node repeat; retry bound off by one. C10: unconditional delete in the timer callback
(minimal history [template, advance TTL, refresh, run callback]); timer not reset on refresh. C11:
`ReadFull` -> `Read`; `continue` after a decode error. C12: client entry not removed (30 s to kill).
C13: GetNumFlows unlocked (race report); callback invoked outside the lock (lost update). C14:
non-atomic check-then-set in Close (killed by the crash rule after the Close scenario was repeated
and barriered). C19: source/destination port swapped in a convertor. C01: string length boundary
`<= 255` in StringInfoElement.GetLength. Reverting each `fix:` commit is killed by the check that found
the defect (its replay is in replays/fixed/).
"""
nb = {k: [0, 0] for k in range(1, 10)}
for r in rows:
    rid = r.split("|")[1]
    mm = re.search(r"-r(\d)-", rid)
    k = int(mm.group(1)) if mm else 1
    nb[k][0] += 1
    nb[k][1] += asbuilt[rid.strip()]
table = ("Changes written by sub-agents that saw only the property text (section 4.2). Ids with -r2- are from a second\n"
         "round whose authors were told that single-site slips had all been caught and were asked for long sequences,\n"
         "narrow input regions, two cooperating edits, reuse/leak and error-path faults. Ids with -r3- are from a third\n"
         "round whose authors were told what the first two rounds had covered and were asked for a different kind:\n"
         "dependence on map iteration order, integer width or overflow at unusual magnitudes, branches only entered in a\n"
         "less common configuration or for a less common data type, resource growth that only shows after many\n"
         "operations, two public functions that are rarely combined. Ids with -r4- are from a fourth round whose authors\n"
         "were given a description of everything the suite varies by then and asked for what such a suite structurally\n"
         "cannot or is unlikely to do (wall-clock values, process environment, very many cheap operations, one specific\n"
         "realistic value, interactions of two mechanisms, less used accessors, runtime-dependent behaviour). Ids with -r5- are\n"
         "from a fifth round (same briefing, extended by what round 4 added; asked for conjunctions of two or more unusual\n"
         "conditions, delayed effects, content-dependent faults, accounting under partial failure, set-up order). Ids with -r6- are\n"
         "from a sixth round (asked for size and count arithmetic that fails for one residue or when a sum of small terms crosses 2^16,\n"
         "first use versus later uses of an object, one error kind out of several classified wrongly, keys with a component dropped or\n"
         "truncated, ties among equal elements). Ids with -r7- are from a seventh round of one change per property, which had to be in a\n"
         "source file no earlier change for that property had touched (the same round asked for inputs on which the unchanged tree\n"
         "already breaks the statement: section 6.1, D16-D22, and section 6.4). Ids with -r8- are from an eighth round, one change\n"
         "per property again, of kinds not used before: a timeout or deadline added around a blocking hand-over, a log statement\n"
         "with a side effect or an unsynchronised read, a limit or a \"cannot happen\" early return added to one of several equivalent\n"
         "paths, a default of the hosting runtime relied upon (findings of that round: section 6.5). Ids with -r9- are from a ninth round\n"
         "(one change per property; asked for state shared between two objects of one kind, the order of independent public calls,\n"
         "keys that collide only for rare value pairs, time arithmetic across boundaries, aliasing appends, values at the edge of their\n"
         "range). `caught by` names the check(s) whose quick tier\n"
         "reports a VIOLATION with the patch applied to /repo; \"as built\" means some check caught it before anything was\n"
         "changed, \"after strengthening\" that every check missed it at first and the owning check was extended (what was\n"
         "added is in the section 3 notes and in meta.json). Caught as built: round 1 %d of %d, round 2 %d of %d, round 3\n"
         "%d of %d, round 4 %d of %d, round 5 %d of %d, round 6 %d of %d, round 7 %d of %d, round 8 %d of %d, round 9 %d of %d; all of the %d but the two marked \"on purpose\" and the eleven that stopped being faults when defects were repaired are caught by the checks as they are now (`tools/regress_mutants.sh` re-runs every filed change\n"
         "against the checks recorded for it).\n\n" % (nb[1][1], nb[1][0], nb[2][1], nb[2][0], nb[3][1], nb[3][0], nb[4][1], nb[4][0], nb[5][1], nb[5][0], nb[6][1], nb[6][0], nb[7][1], nb[7][0], nb[8][1], nb[8][0], nb[9][1], nb[9][0], len(rows)) +
         "| id | file | change | needs | caught by |\n|---|---|---|---|---|\n" + "\n".join(rows) + "\n" + hand)
p = os.path.join(root, "DESIGN.md")
s = open(p).read()
a = s.index("## 9. Seeded changes: which checks catch which")
b = s.index("---------", a)
s = s[:a] + "## 9. Seeded changes: which checks catch which\n\n" + table + "\n" + s[b:]
open(p, "w").write(s)
print(len(rows), "seeded changes")
