#!/bin/bash
# Statement coverage of vmware/go-ipfix (non-test sources) reached by the quick tiers of all checks.
# Builds every check with -cover -coverpkg, runs it, merges the profiles, lists uncovered blocks.
# Scratch under /var/tmp/vt/cov (removed first). Does not touch /verif/evidence.
set -u
export GOFLAGS=-mod=mod GOPROXY=off GOSUMDB=off GOTOOLCHAIN=local
OUT=/var/tmp/vt/cov; rm -rf $OUT; mkdir -p $OUT
cd /verif/harness
for p in c01 c02 c03 c04 c05 c06 c07 c08 c09 c10 c11 c12 c13 c14 c15 c16 c17 c18 c19 c20; do
  extra=""
  if [ $p = c20 ]; then echo "{\"Replace\": {\"/verif/harness/c20/collector.go\": \"/repo/cmd/collector/collector.go\"}}" > $OUT/ov.json; extra="-overlay $OUT/ov.json"; fi
  go test -c -tags verif -vet=off -cover -covermode=set -coverpkg=github.com/vmware/go-ipfix/...,verifharness/c20 $extra -o $OUT/$p.test ./$p 2>$OUT/$p.build.log || { echo "$p build failed"; continue; }
  ( cd $p && VERIF_TIER=quick VERIF_SEED=1 VERIF_EVIDENCE_OUT=$OUT/$p.ev.json VERIF_REPLAY_DIR=$OUT/replays timeout 900 $OUT/$p.test -test.run 'Test' -test.count=1 -test.timeout 800s -test.coverprofile=$OUT/$p.prof > $OUT/$p.log 2>&1; echo "$p rc=$?" )
done
python3 - <<'PY'
import glob,re,collections
cov=collections.defaultdict(int); stm={}
for f in glob.glob('/var/tmp/vt/cov/*.prof'):
    for l in open(f):
        if l.startswith('mode:'): continue
        m=re.match(r'(.*):(\d+)\.(\d+),(\d+)\.(\d+) (\d+) (\d+)',l)
        if not m: continue
        k=(m.group(1),int(m.group(2)),int(m.group(4))); stm[k]=int(m.group(6)); cov[k]=max(cov[k],int(m.group(7)))
by=collections.defaultdict(lambda:[0,0])
for k,n in stm.items():
    by[k[0]][0]+=n; by[k[0]][1]+= n if cov[k] else 0
tot=[0,0]
for f in sorted(by):
    if '/mocks/' in f or 'verif_hooks' in f: continue
    a,b=by[f]; tot[0]+=a; tot[1]+=b
    print(f"{b*100//max(a,1):3d}%  {b:5d}/{a:5d}  {f}")
print("total", tot[1], "/", tot[0])
with open('/var/tmp/vt/cov/uncovered.txt','w') as o:
    for k in sorted(stm):
        if not cov[k] and '/mocks/' not in k[0]: o.write(f"{k[0]}:{k[1]}-{k[2]} ({stm[k]} stmts)\n")
PY
