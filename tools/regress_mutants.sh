#!/bin/bash
# Re-runs every filed seeded change against the checks recorded as catching it (quick tier) and
# prints one line per (change, check): CAUGHT or MISSED. Serial: it patches /repo temporarily.
cd /verif
for d in seeded/*/; do
  id=$(basename "$d")
  for prop in $(python3 -c "import json,sys; print(' '.join(json.load(open('$d/meta.json')).get('caught_by',[])))"); do
    if ! git -C /repo apply --check "/verif/$d/patch.diff" 2>/dev/null; then echo "$id $prop PATCH-DOES-NOT-APPLY"; continue; fi
    out=$(tools/try_mutant.sh "$d/patch.diff" "$prop" quick 2>&1)
    if echo "$out" | grep -q "^VIOLATION property=$prop"; then echo "$id $prop CAUGHT"; else echo "$id $prop MISSED: $(echo "$out" | tail -2 | tr '\n' ' ' | cut -c1-200)"; fi
  done
done
