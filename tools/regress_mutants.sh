#!/bin/bash
# Re-runs every filed seeded change against the checks recorded as catching it (quick tier) and
# prints one line per (change, check): CAUGHT or MISSED. Uses tools/try_mutant.sh (scratch worktrees
# of /repo, never /repo itself) in SLOTS parallel slots (default 4).
cd /verif
SLOTS=${SLOTS:-4}
jobs=$(for d in seeded/*/; do id=$(basename "$d"); for prop in $(python3 -c "import json; print(' '.join(json.load(open('$d/meta.json')).get('caught_by',[])))"); do echo "$id $prop"; done; done)
worker() {
  slot=$1
  echo "$jobs" | awk -v n=$SLOTS -v s=$slot 'NR % n == s' | while read id prop; do
    out=$(MUT_SLOT=$slot tools/try_mutant.sh "seeded/$id/patch.diff" "$prop" quick 2>&1)
    if echo "$out" | grep -q "^VIOLATION property=$prop"; then echo "$id $prop CAUGHT"; else echo "$id $prop MISSED: $(echo "$out" | tail -2 | tr '\n' ' ' | cut -c1-200)"; fi
  done
}
for s in $(seq 0 $((SLOTS-1))); do worker $s & done
wait
