// Finding 2 for property C01 (CLEAN tree): a UDP collecting process whose CollectorInput
// leaves MaxBufferSize at its zero value delivers NOTHING - every datagram is read into a
// zero-length buffer, "decoded" as an empty packet and dropped with a log line - while the
// same CollectorInput with Protocol "tcp" works, and the exporter's SendSet reports success.
//
// Place:  cp OUT/finding2_test.go WT/pkg/exporter/finding2_test.go
// Run:    cd WT && go test -count=1 -timeout 120s -run 'TestFinding2UDPCollectorDefaultBufferSize' ./pkg/exporter
//
// Clause violated: "Whatever template and data records an application hands to an exporting
// process are what a collecting process connected to it delivers ... over TCP, UDP, TLS and
// DTLS alike" (quantified over configurations). Over UDP nothing at all is delivered.
//
// Why the input is legitimate: MaxBufferSize is an undocumented uint16 field of
// CollectorInput; every other field left at its zero value gets a working default
// (TemplateTTL 0 -> 1800 s, DecodingMode "" -> Strict, NumExtraElements 0), the TCP path never
// looks at it, InitCollectingProcess accepts the input and Start() listens normally. Only
// pkg/collector/udp.go uses it, as `make([]byte, cp.maxBufferSize)`: with 0 the kernel
// truncates each datagram to nothing and the library logs "error in decoding data: EOF".
// (cmd/collector sets 65535 explicitly, which is why the shipped binary works.)
package exporter_test

import (
	"testing"
	"time"

	"github.com/vmware/go-ipfix/pkg/collector"
	"github.com/vmware/go-ipfix/pkg/entities"
	"github.com/vmware/go-ipfix/pkg/exporter"
	"github.com/vmware/go-ipfix/pkg/registry"
)

func f2RoundTrip(t *testing.T, protocol string) {
	registry.LoadRegistry()
	// Address and Protocol are the only fields an application has to think about.
	cp, err := collector.InitCollectingProcess(collector.CollectorInput{Address: "127.0.0.1:0", Protocol: protocol})
	if err != nil {
		t.Fatal(err)
	}
	go cp.Start()
	defer cp.Stop()
	for i := 0; i < 500 && cp.GetAddress() == nil; i++ {
		time.Sleep(10 * time.Millisecond)
	}
	if cp.GetAddress() == nil {
		t.Fatal("collector did not start")
	}
	ep, err := exporter.InitExportingProcess(exporter.ExporterInput{
		CollectorAddress:    cp.GetAddress().String(),
		CollectorProtocol:   protocol,
		ObservationDomainID: 7,
	})
	if err != nil {
		t.Fatal(err)
	}
	defer ep.CloseConnToCollector()

	const templateID = 256
	ie, err := registry.GetInfoElement("sourceTransportPort", registry.IANAEnterpriseID)
	if err != nil {
		t.Fatal(err)
	}
	tmplElem, _ := entities.DecodeAndCreateInfoElementWithValue(ie, nil)
	tmpl := entities.NewSet(false)
	if err := tmpl.PrepareSet(entities.Template, templateID); err != nil {
		t.Fatal(err)
	}
	if err := tmpl.AddRecord([]entities.InfoElementWithValue{tmplElem}, templateID); err != nil {
		t.Fatal(err)
	}
	if _, err := ep.SendSet(tmpl); err != nil {
		t.Fatalf("%s: SendSet(template): %v", protocol, err)
	}
	select {
	case m := <-cp.GetMsgChan():
		if m.GetSet().GetSetType() != entities.Template {
			t.Fatalf("%s: unexpected set type %v", protocol, m.GetSet().GetSetType())
		}
	case <-time.After(3 * time.Second):
		t.Fatalf("%s: the template (24-byte message) handed to the exporting process was never delivered", protocol)
	}

	data := entities.NewSet(false)
	if err := data.PrepareSet(entities.Data, templateID); err != nil {
		t.Fatal(err)
	}
	if err := data.AddRecord([]entities.InfoElementWithValue{entities.NewUnsigned16InfoElement(ie, 443)}, templateID); err != nil {
		t.Fatal(err)
	}
	if _, err := ep.SendSet(data); err != nil {
		t.Fatalf("%s: SendSet(data): %v", protocol, err)
	}
	select {
	case m := <-cp.GetMsgChan():
		recs := m.GetSet().GetRecords()
		if len(recs) != 1 || recs[0].GetOrderedElementList()[0].GetUnsigned16Value() != 443 {
			t.Fatalf("%s: wrong data delivered", protocol)
		}
	case <-time.After(3 * time.Second):
		t.Fatalf("%s: the data record handed to the exporting process was never delivered", protocol)
	}
}

func TestFinding2UDPCollectorDefaultBufferSize(t *testing.T) {
	t.Run("tcp", func(t *testing.T) { f2RoundTrip(t, "tcp") }) // passes
	t.Run("udp", func(t *testing.T) { f2RoundTrip(t, "udp") }) // fails on the clean tree
}
