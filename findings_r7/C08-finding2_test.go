// FINDING 2 (property C08) - on the UNCHANGED library the sequence counter is advanced BEFORE the
// message is built and written, so the records of a SendSet call that FAILS (and transmits
// nothing) are counted; every later, successful message then carries a sequence number that is
// larger than the number of data records transmitted so far.
//
// Place:   copy to WT/pkg/exporter/finding2_test.go
// Run:     cd WT && go test -count=1 -timeout 120s -run 'TestFinding2_' ./pkg/exporter
//
// Clause violated: "the sequence number in each transmitted message equals the number of data
// records carried by all data messages transmitted so far including that message".
// NOTE ON THE WORDING: the statement puts "failed attempts" outside its scope. This finding is not
// about what the failed call returns or sends (nothing is sent, an error is returned - fine); it is
// about the SUCCESSFUL calls that follow it: read over the successful calls of the history alone
// (T, D1, D3 below), D3's header is wrong. If histories that contain any failed call are meant to
// be excluded wholesale, disregard this finding.
//
// Where: pkg/exporter/process.go, createAndSendIPFIXMsg():
//      seqNumber = atomic.AddUint32(&ep.seqNumber, set.GetNumberOfRecords())   // counted here
//      bytesSlice, err := CreateIPFIXMsg(...)                                   // may refuse (size)
//      ... ep.connToCollector.Write(bytesSlice)                                 // may fail (EMSGSIZE on udp)
// and nothing takes the records back when one of the two later steps fails.
//
// Why the input is legitimate: every step is accepted by the public API. A data set that has grown
// past the message size limit is an ordinary event (the library offers GetMsgSizeLimit() but
// AddRecord does not enforce it; SendSet is where the application learns about it). The natural
// reaction - split the set and send the halves - makes it worse: the same records are counted
// twice. The connection stays usable after the refusal, so the session simply continues with a
// counter that is off by the refused records for ever; a collector that detects loss from the
// sequence number (RFC 7011, 3.1: "all IPFIX Data Records sent") reports records as lost that were
// never sent. On udp the same happens for sets between 65508 and 65535 bytes, which pass the
// library's own limit but are refused by the socket (EMSGSIZE).
package exporter_test

import (
	"encoding/binary"
	"io"
	"net"
	"testing"
	"time"

	"github.com/vmware/go-ipfix/pkg/entities"
	"github.com/vmware/go-ipfix/pkg/exporter"
	"github.com/vmware/go-ipfix/pkg/registry"
)

func finding2DataSet(t *testing.T, ie *entities.InfoElement, id uint16, numRecords int) entities.Set {
	ds := entities.NewSet(false)
	if err := ds.PrepareSet(entities.Data, id); err != nil {
		t.Fatal(err)
	}
	for r := 0; r < numRecords; r++ {
		v := entities.NewUnsigned64InfoElement(ie, uint64(r))
		if err := ds.AddRecord([]entities.InfoElementWithValue{v}, id); err != nil {
			t.Fatal(err)
		}
	}
	return ds
}

func finding2Template(t *testing.T, ep *exporter.ExportingProcess, ie *entities.InfoElement) uint16 {
	id := ep.NewTemplateID()
	ts := entities.NewSet(false)
	if err := ts.PrepareSet(entities.Template, id); err != nil {
		t.Fatal(err)
	}
	el, _ := entities.DecodeAndCreateInfoElementWithValue(ie, nil)
	if err := ts.AddRecord([]entities.InfoElementWithValue{el}, id); err != nil {
		t.Fatal(err)
	}
	if _, err := ep.SendSet(ts); err != nil {
		t.Fatal(err)
	}
	return id
}

// tcp: a set that exceeds the library's message size limit is refused by CreateIPFIXMsg.
func TestFinding2_RefusedOversizeSetIsCountedTCP(t *testing.T) {
	registry.LoadRegistry()
	ie, err := registry.GetInfoElement("octetDeltaCount", registry.IANAEnterpriseID)
	if err != nil {
		t.Fatal(err)
	}
	ln, err := net.Listen("tcp", "127.0.0.1:0")
	if err != nil {
		t.Fatal(err)
	}
	defer ln.Close()
	type hdr struct {
		seq     uint32
		setID   uint16
		records int
	}
	got := make(chan hdr, 16)
	go func() {
		conn, err := ln.Accept()
		if err != nil {
			return
		}
		defer conn.Close()
		defer close(got)
		h := make([]byte, 20)
		body := make([]byte, 65536)
		for {
			if _, err := io.ReadFull(conn, h); err != nil {
				return
			}
			setLen := int(binary.BigEndian.Uint16(h[18:20]))
			if _, err := io.ReadFull(conn, body[:setLen-4]); err != nil {
				return
			}
			got <- hdr{binary.BigEndian.Uint32(h[8:12]), binary.BigEndian.Uint16(h[16:18]), (setLen - 4) / 8}
		}
	}()

	ep, err := exporter.InitExportingProcess(exporter.ExporterInput{
		CollectorAddress:    ln.Addr().String(),
		CollectorProtocol:   "tcp",
		ObservationDomainID: 1,
	})
	if err != nil {
		t.Fatal(err)
	}
	id := finding2Template(t, ep, ie) // T : succeeds
	if _, err := ep.SendSet(finding2DataSet(t, ie, id, 2)); err != nil { // D1: succeeds, 2 records
		t.Fatal(err)
	}
	const refused = 9000 // 9000 records of 8 bytes: 72020 bytes > 65535
	n, err := ep.SendSet(finding2DataSet(t, ie, id, refused)) // D2: refused, nothing is written
	if err == nil {
		t.Fatalf("expected the oversize set to be refused, SendSet reported %d bytes", n)
	}
	t.Logf("oversize set refused as expected: n=%d err=%v", n, err)
	if _, err := ep.SendSet(finding2DataSet(t, ie, id, 3)); err != nil { // D3: succeeds, 3 records
		t.Fatalf("the session must stay usable after the refusal: %v", err)
	}
	ep.CloseConnToCollector()

	var transmitted uint32
	count := 0
	for h := range got {
		count++
		if h.setID != entities.TemplateSetID {
			transmitted += uint32(h.records)
		}
		if h.seq != transmitted {
			t.Errorf("message #%d (set id %d, %d records): sequence number %d, but %d data records were transmitted so far (including this message); the %d records of the refused set were counted",
				count, h.setID, h.records, h.seq, transmitted, h.seq-transmitted)
		}
	}
	if count != 3 {
		t.Errorf("collector saw %d messages, want 3 (T, D1, D3)", count)
	}
}

// udp: a set of 65508..65535 bytes passes the library's limit and is refused by the socket.
func TestFinding2_RefusedOversizeSetIsCountedUDP(t *testing.T) {
	registry.LoadRegistry()
	ie, err := registry.GetInfoElement("octetDeltaCount", registry.IANAEnterpriseID)
	if err != nil {
		t.Fatal(err)
	}
	pc, err := net.ListenUDP("udp", &net.UDPAddr{IP: net.IPv4(127, 0, 0, 1)})
	if err != nil {
		t.Fatal(err)
	}
	defer pc.Close()
	ep, err := exporter.InitExportingProcess(exporter.ExporterInput{
		CollectorAddress:    pc.LocalAddr().String(),
		CollectorProtocol:   "udp",
		ObservationDomainID: 1,
	})
	if err != nil {
		t.Fatal(err)
	}
	defer ep.CloseConnToCollector()
	id := finding2Template(t, ep, ie)
	if _, err := ep.SendSet(finding2DataSet(t, ie, id, 2)); err != nil {
		t.Fatal(err)
	}
	const refused = 8189 // 16 + 4 + 8189*8 = 65532 bytes: within the library's limit, beyond udp's
	if n, err := ep.SendSet(finding2DataSet(t, ie, id, refused)); err == nil {
		t.Skipf("this platform sent a %d-byte datagram; nothing to show", n)
	} else {
		t.Logf("datagram refused by the socket as expected: n=%d err=%v", n, err)
	}
	if _, err := ep.SendSet(finding2DataSet(t, ie, id, 3)); err != nil {
		t.Fatalf("the session must stay usable after the refusal: %v", err)
	}

	buf := make([]byte, 65536)
	var transmitted uint32
	for i := 0; i < 3; i++ {
		_ = pc.SetReadDeadline(time.Now().Add(5 * time.Second))
		l, _, err := pc.ReadFromUDP(buf)
		if err != nil {
			t.Fatalf("datagram #%d: %v", i+1, err)
		}
		seq := binary.BigEndian.Uint32(buf[8:12])
		setID := binary.BigEndian.Uint16(buf[16:18])
		if setID != entities.TemplateSetID {
			transmitted += uint32((l - 20) / 8)
		}
		if seq != transmitted {
			t.Errorf("datagram #%d (set id %d): sequence number %d, but %d data records were transmitted so far (including this message)", i+1, setID, seq, transmitted)
		}
	}
}
