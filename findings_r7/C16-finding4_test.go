// Finding 4 for property C16 (CLEAN tree, minor): a set that has been reset is
// NOT in the state of a new set - ResetSet leaves the type Undefined, NewSet
// leaves it at the zero value, which is Template.
//
// Place at:  WT/pkg/exporter/finding4_test.go
// Run with:  cd WT && go test -count=1 -timeout 120s -run 'TestFinding4C16' ./pkg/exporter
//
// Clause violated: "after a reset a set behaves exactly like a new one".
// Observable without any ill-formed operation through Set.GetSetType() (one of
// the interface's accessors), and with consequences as soon as an application
// reaches SendSet / AddRecord on a path that skipped PrepareSet (the very
// mistake the Undefined state exists to catch):
//   - reset set : AddRecord is refused ("set type is not supported"), SendSet is
//                 refused ("set type is not properly defined");
//   - new set   : AddRecord is accepted and builds a TEMPLATE record under a set
//                 header whose Set ID is 0, and SendSet transmits it (an empty
//                 new set goes out as a 20-byte message with Set ID 0, which
//                 RFC 7011 reserves / a collector cannot interpret).
// The operations are the same public ones on objects that the statement says
// are indistinguishable.  FAILS on the clean tree.
package exporter_test

import (
	"io"
	"net"
	"testing"

	"github.com/vmware/go-ipfix/pkg/entities"
	"github.com/vmware/go-ipfix/pkg/exporter"
)

func TestFinding4C16(t *testing.T) {
	ln, err := net.Listen("tcp", "127.0.0.1:0")
	if err != nil {
		t.Skipf("cannot listen: %v", err)
	}
	defer ln.Close()
	go func() {
		for {
			c, err := ln.Accept()
			if err != nil {
				return
			}
			go io.Copy(io.Discard, c)
		}
	}()
	ep, err := exporter.InitExportingProcess(exporter.ExporterInput{CollectorAddress: ln.Addr().String(), CollectorProtocol: "tcp", ObservationDomainID: 1})
	if err != nil {
		t.Fatal(err)
	}
	defer ep.CloseConnToCollector()

	ie := entities.NewInfoElement("sourceTransportPort", 7, entities.Unsigned16, 0, 2)
	mk := func() []entities.InfoElementWithValue {
		return []entities.InfoElementWithValue{entities.NewUnsigned16InfoElement(ie, 0)}
	}

	fresh := entities.NewSet(false)
	reused := entities.NewSet(false)
	if err := reused.PrepareSet(entities.Data, 256); err != nil {
		t.Fatal(err)
	}
	if err := reused.AddRecord(mk(), 256); err != nil {
		t.Fatal(err)
	}
	reused.ResetSet()

	if a, b := fresh.GetSetType(), reused.GetSetType(); a != b {
		t.Errorf("GetSetType: new set %d, reset set %d", a, b)
	}
	nNew, errNew := ep.SendSet(fresh)
	nReset, errReset := ep.SendSet(reused)
	if (errNew == nil) != (errReset == nil) || nNew != nReset {
		t.Errorf("SendSet: new set -> (%d bytes, %v), reset set -> (%d bytes, %v)", nNew, errNew, nReset, errReset)
	}
	errNew, errReset = fresh.AddRecord(mk(), 256), reused.AddRecord(mk(), 256)
	if (errNew == nil) != (errReset == nil) {
		t.Errorf("AddRecord before PrepareSet: new set -> %v (set now %d bytes, Set ID %x), reset set -> %v",
			errNew, fresh.GetSetLength(), fresh.GetHeaderBuffer()[:2], errReset)
	}
}
