// Finding 2 (property C14, CLEAN tree): over TCP a collector-side close is NOT noticed
// within the check interval when the peer wrote anything before closing: the connection
// check reads ONE byte per tick, so a peer that sent N bytes and closed is only found out
// after N+1 ticks ((N+1) x 10 s with the default interval). Until then the exporting
// process believes it is connected and SendSet reports success for bytes that vanish.
//
// Place:   copy to WT/pkg/exporter/finding2_test.go
// Command: cd WT && go test -count=1 -timeout 60s -run 'TestFinding2_PeerWritesThenCloses' ./pkg/exporter
//
// Clause violated: "over TCP a collector-side close is noticed within the check interval
// and subsequent sends fail instead of vanishing".
//
// Why the input is legitimate: nothing in the library or in the property restricts what the
// peer may do before it closes; the exporter cannot choose its peer's behaviour. Realistic
// origins: the configured address is a service that greets first and hangs up when it does
// not like the client (SSH, SMTP, FTP banners - the 41 bytes below are an OpenSSH banner); a
// TCP proxy / load balancer in front of the collector that answers with an error text when
// its backend is down and closes; a TLS collector that sends an alert to a client which was
// configured without TLS, then closes. The same holds on a TLS session for a peer that
// sends one application-data record before close_notify (tls.Conn.Read also hands out one
// byte per call). The check (checkConnToCollector) treats "read 1 byte, no error" as
// "still connected" and never drains.
//
// The test: CheckConnInterval = 100 ms; the peer writes 41 bytes, closes; the application
// sends 1 s (ten check intervals) later. Expected: an error from SendSet (the close was
// noticed, the process closed its side). Observed: SendSet returns (n > 0, nil).
package exporter

import (
	"net"
	"testing"
	"time"

	"github.com/vmware/go-ipfix/pkg/entities"
)

func TestFinding2_PeerWritesThenCloses(t *testing.T) {
	listener, err := net.Listen("tcp", "127.0.0.1:0")
	if err != nil {
		t.Fatal(err)
	}
	defer listener.Close()
	peerClosed := make(chan struct{})
	go func() {
		conn, err := listener.Accept()
		if err != nil {
			return
		}
		_, _ = conn.Write([]byte("SSH-2.0-OpenSSH_8.9p1 Ubuntu-3ubuntu0.10\r\n"))
		time.Sleep(50 * time.Millisecond)
		conn.Close() // orderly close (FIN): nothing unread on this side
		close(peerClosed)
	}()

	const interval = 100 * time.Millisecond
	ep, err := InitExportingProcess(ExporterInput{
		CollectorAddress:    listener.Addr().String(),
		CollectorProtocol:   "tcp",
		ObservationDomainID: 1,
		CheckConnInterval:   interval,
	})
	if err != nil {
		t.Fatal(err)
	}
	defer ep.CloseConnToCollector()

	<-peerClosed
	time.Sleep(10 * interval) // ten check intervals after the collector-side close

	ie := entities.NewInfoElement("sourceIPv4Address", 8, entities.Ipv4Address, 0, 4)
	elem, err := entities.DecodeAndCreateInfoElementWithValue(ie, nil)
	if err != nil {
		t.Fatal(err)
	}
	id := ep.NewTemplateID()
	set := entities.NewSet(false)
	if err := set.PrepareSet(entities.Template, id); err != nil {
		t.Fatal(err)
	}
	if err := set.AddRecord([]entities.InfoElementWithValue{elem}, id); err != nil {
		t.Fatal(err)
	}
	n, err := ep.SendSet(set)
	if err == nil {
		t.Errorf("ten check intervals after the collector closed the connection, SendSet still reports success (%d bytes \"sent\"): "+
			"the close was not noticed and the message vanished", n)
	} else {
		t.Logf("SendSet failed as it should: %v", err)
	}
}
