// Finding 1 for property C01 (CLEAN tree): handing an exporting process a template Set that
// was delivered by a collecting process (an IPFIX mediator / relay that re-exports what it
// collects) crashes the program: exporter.CreateIPFIXMsg panics with
// "slice bounds out of range [:N] with capacity N-4".
//
// Place:  cp OUT/finding1_test.go WT/pkg/exporter/finding1_test.go
// Run:    cd WT && go test -count=1 -timeout 120s -run 'TestFinding1RelayDeliveredTemplateSet' ./pkg/exporter
//
// Clause violated: "Whatever template and data records an application hands to an exporting
// process are what a collecting process connected to it delivers: ... same template fields
// ... in the same order". The template record handed over is a perfectly ordinary one (two
// IANA elements); it is simply held in the entities.Set the collector delivered.
//
// Why the input is legitimate: entities.Set is the one public set type; Message.GetSet()
// returns it and ExportingProcess.SendSet() takes it; nothing in the API or documentation
// distinguishes "decoded" sets from "encoding" ones. Every step is accepted: SendSet does not
// refuse the set (its type is Template, which skips the per-record checks), it reaches
// CreateIPFIXMsg, which sizes the output from set.GetSetLength(). For a set built by the
// collector that length does not include the 4-byte set header (NewSet(true) starts at 0,
// NewSet(false) at 4), while the records are copied after a 4-byte header slot: the copy
// runs 4 bytes past the slice. Origin: RFC 6183 style mediators/proxies, or a collector that
// forwards the templates it learns to a second collector.
//
// (A delivered DATA set handed to SendSet is refused with an error instead - "Data Record
// does not pass the min required length" - because decoded records carry no buffer; that is
// at least not a crash, so it is not what this test checks.)
package exporter_test

import (
	"testing"
	"time"

	"github.com/vmware/go-ipfix/pkg/collector"
	"github.com/vmware/go-ipfix/pkg/entities"
	"github.com/vmware/go-ipfix/pkg/exporter"
	"github.com/vmware/go-ipfix/pkg/registry"
)

func f1Recv(cp *collector.CollectingProcess) *entities.Message {
	select {
	case m := <-cp.GetMsgChan():
		return m
	case <-time.After(3 * time.Second):
		return nil
	}
}

func TestFinding1RelayDeliveredTemplateSet(t *testing.T) {
	registry.LoadRegistry()
	cp, err := collector.InitCollectingProcess(collector.CollectorInput{Address: "127.0.0.1:0", Protocol: "tcp"})
	if err != nil {
		t.Fatal(err)
	}
	go cp.Start()
	defer cp.Stop()
	for i := 0; i < 500 && cp.GetAddress() == nil; i++ {
		time.Sleep(10 * time.Millisecond)
	}
	if cp.GetAddress() == nil {
		t.Fatal("collector did not start")
	}
	ep, err := exporter.InitExportingProcess(exporter.ExporterInput{
		CollectorAddress:    cp.GetAddress().String(),
		CollectorProtocol:   "tcp",
		ObservationDomainID: 7,
	})
	if err != nil {
		t.Fatal(err)
	}
	defer ep.CloseConnToCollector()

	// An ordinary template, built the ordinary way, is exported and delivered.
	names := []string{"sourceTransportPort", "octetDeltaCount"}
	const templateID = 256
	tmpl := entities.NewSet(false)
	if err := tmpl.PrepareSet(entities.Template, templateID); err != nil {
		t.Fatal(err)
	}
	var elements []entities.InfoElementWithValue
	for _, n := range names {
		ie, err := registry.GetInfoElement(n, registry.IANAEnterpriseID)
		if err != nil {
			t.Fatal(err)
		}
		e, err := entities.DecodeAndCreateInfoElementWithValue(ie, nil)
		if err != nil {
			t.Fatal(err)
		}
		elements = append(elements, e)
	}
	if err := tmpl.AddRecord(elements, templateID); err != nil {
		t.Fatal(err)
	}
	if _, err := ep.SendSet(tmpl); err != nil {
		t.Fatal(err)
	}
	first := f1Recv(cp)
	if first == nil {
		t.Fatal("the template was not delivered")
	}

	// The relay step: the delivered Set is handed to an exporting process as it is.
	delivered := first.GetSet()
	if delivered.GetSetType() != entities.Template || len(delivered.GetRecords()) != 1 {
		t.Fatalf("unexpected delivery: type %v, %d records", delivered.GetSetType(), len(delivered.GetRecords()))
	}
	var sendErr error
	panicked := func() (p interface{}) {
		defer func() { p = recover() }()
		_, sendErr = ep.SendSet(delivered)
		return nil
	}()
	if panicked != nil {
		t.Fatalf("SendSet of a template Set delivered by a collecting process panicked: %v", panicked)
	}
	if sendErr != nil {
		t.Fatalf("SendSet of a template Set delivered by a collecting process failed: %v", sendErr)
	}
	second := f1Recv(cp)
	if second == nil {
		t.Fatal("the relayed template was not delivered")
	}
	fields := second.GetSet().GetRecords()[0].GetOrderedElementList()
	if second.GetObsDomainID() != 7 || len(fields) != len(names) {
		t.Fatalf("relayed template: domain %d, %d fields; want domain 7, %d fields", second.GetObsDomainID(), len(fields), len(names))
	}
	for i, f := range fields {
		if f.GetName() != names[i] {
			t.Errorf("relayed template field %d is %q, want %q", i, f.GetName(), names[i])
		}
	}
}
