// FINDING 2 (property C15) - clean tree. Lower confidence than finding 1: the fault is in the
// record-level value accessor, not in the per-element getters.
//
// Place at:  WT/pkg/entities/finding2_test.go
// Run with:  cd WT && go test -count=1 -timeout 60s -run 'TestFinding2' ./pkg/entities
//
// Clause violated: "for every supported data type ... decoding those bytes yields the same
// value", observed through Record.GetElementMap(), the public accessor that hands out the
// values of a record by element name (it is what the aggregation process returns from
// GetRecords).
//
// What happens: GetElementMap switches over the data types and has no case for OctetArray, so
// for an octet array element - fixed or variable length, in a record being encoded as well as
// in a decoded one - the map holds an error value ("API supports only valid information
// elements with datatypes given in RFC7011") in place of the bytes. OctetArray is one of the
// types the codec supports (it is encoded, decoded and returned by GetOctetArrayValue), and it
// is the type every unknown element gets in the lenient decoding modes, so with
// DecodingModeLenientKeepUnknown every field the registry does not know comes out of
// GetElementMap as an error.
//
// Legitimate: the value is decoded from the bytes the library itself wrote for it; every other
// supported type comes back from the same call with its value.
package entities

import (
	"bytes"
	"testing"
)

func TestFinding2ElementMapOfOctetArray(t *testing.T) {
	varIE := NewInfoElement("ipv6ExtensionHeadersFull", 1001, OctetArray, 0, VariableLength)
	fixIE := NewInfoElement("mplsTopLabelStackSection", 70, OctetArray, 0, 3)
	strIE := NewInfoElement("interfaceName", 82, String, 0, VariableLength)
	values := map[string][]byte{varIE.Name: {1, 2, 3, 4, 5}, fixIE.Name: {0xAA, 0xBB, 0xCC}}

	enc := NewSet(false)
	if err := enc.PrepareSet(Data, 256); err != nil {
		t.Fatal(err)
	}
	if err := enc.AddRecord([]InfoElementWithValue{
		NewOctetArrayInfoElement(varIE, values[varIE.Name]),
		NewOctetArrayInfoElement(fixIE, values[fixIE.Name]),
		NewStringInfoElement(strIE, "eth0"),
	}, 256); err != nil {
		t.Fatal(err)
	}
	buf := enc.GetRecords()[0].GetBuffer()

	// Decode the bytes field by field, as the collector does, into a decoded record.
	off := 0
	var decoded []InfoElementWithValue
	for _, ie := range []*InfoElement{varIE, fixIE, strIE} {
		l := int(ie.Len)
		if ie.Len == VariableLength {
			l = int(buf[off])
			off++
		}
		e, err := DecodeAndCreateInfoElementWithValue(ie, buf[off:off+l])
		if err != nil {
			t.Fatal(err)
		}
		decoded = append(decoded, e)
		off += l
	}
	if off != len(buf) {
		t.Fatalf("consumed %d of %d bytes", off, len(buf))
	}
	dec := NewSet(true)
	if err := dec.PrepareSet(Data, 256); err != nil {
		t.Fatal(err)
	}
	if err := dec.AddRecordV2(decoded, 256); err != nil {
		t.Fatal(err)
	}

	for side, rec := range map[string]Record{"encoding record": enc.GetRecords()[0], "decoded record": dec.GetRecords()[0]} {
		m := rec.GetElementMap()
		if s, ok := m[strIE.Name].(string); !ok || s != "eth0" {
			t.Errorf("%s: %s = %#v, want \"eth0\"", side, strIE.Name, m[strIE.Name])
		}
		for name, want := range values {
			got, ok := m[name].([]byte)
			if !ok || !bytes.Equal(got, want) {
				t.Errorf("%s: GetElementMap()[%q] = %#v (%T), want the octets %x", side, name, m[name], m[name], want)
			}
		}
	}
}
