// FINDING 4 (property C06) - fails on the CLEAN tree.
//
// Place at:  WT/pkg/intermediate/finding4_test.go
// Run with:  cd WT && go test -count=1 -timeout 120s -run 'TestFinding4' ./pkg/intermediate
//
// Clause violated: "After any sequence of arrivals, expiry scans and callback failures, every
// flow still held is scheduled for a future expiry" (and "the advertised time to the next
// expiry matches the earliest deadline").
//
// Input: an ordinary flow; one expiry scan whose callback fails by PANICKING (once) instead of
// returning an error, in an application that survives panics of its export path (a recover()
// around the export loop, as long-running daemons commonly have). The accessors of
// entities.InfoElementWithValue panic by design on a type mismatch ("accessing value of wrong
// data type"), so a callback that reads an element of an unexpected type fails exactly this way.
//
// Observed: ForAllExpiredFlowRecordsDo has popped the item before it calls the callback. The
// deferred Unlock releases the mutex, but nothing puts the item back (the repair that re-queues
// the item covers the error return only). The flow stays in the map with a queue item of index
// -1; the queue is empty: the flow is never handed to the callback again and never removed,
// later records for it end in heap.Fix(pq, -1), a silent no-op, and
// GetExpiryFromExpirePriorityQueue advertises the "no flows" default although a flow with a
// passed deadline is held.
//
// Public API only.
package intermediate

import (
	"net"
	"testing"
	"time"

	"github.com/vmware/go-ipfix/pkg/entities"
	"github.com/vmware/go-ipfix/pkg/registry"
)

func finding4Msg(t *testing.T) *entities.Message {
	t.Helper()
	registry.LoadRegistry()
	mk := func(name string, ent uint32) *entities.InfoElement {
		ie, err := registry.GetInfoElement(name, ent)
		if err != nil {
			t.Fatal(err)
		}
		return ie
	}
	elements := []entities.InfoElementWithValue{
		entities.NewIPAddressInfoElement(mk("sourceIPv4Address", 0), net.ParseIP("10.0.0.1").To4()),
		entities.NewIPAddressInfoElement(mk("destinationIPv4Address", 0), net.ParseIP("10.0.0.2").To4()),
		entities.NewUnsigned16InfoElement(mk("sourceTransportPort", 0), 1234),
		entities.NewUnsigned16InfoElement(mk("destinationTransportPort", 0), 80),
		entities.NewUnsigned8InfoElement(mk("protocolIdentifier", 0), 6),
		entities.NewUnsigned8InfoElement(mk("flowType", registry.AntreaEnterpriseID), registry.FlowTypeIntraNode),
	}
	set := entities.NewSet(false)
	if err := set.PrepareSet(entities.Data, 256); err != nil {
		t.Fatal(err)
	}
	if err := set.AddRecord(elements, 256); err != nil {
		t.Fatal(err)
	}
	msg := entities.NewMessage(false)
	msg.AddSet(set)
	return msg
}

func TestFinding4PanickingCallbackStrandsFlow(t *testing.T) {
	const (
		active   = 20 * time.Millisecond
		inactive = time.Hour
	)
	ch := make(chan *entities.Message)
	ap, err := InitAggregationProcess(AggregationInput{
		MessageChan:           ch,
		WorkerNum:             1,
		ActiveExpiryTimeout:   active,
		InactiveExpiryTimeout: inactive,
	})
	if err != nil {
		t.Fatal(err)
	}
	if err := ap.AggregateMsgByFlowKey(finding4Msg(t)); err != nil {
		t.Fatal(err)
	}
	time.Sleep(active + 5*time.Millisecond)

	// the application's export path, protected by recover()
	scan := func(cb FlowKeyRecordMapCallBack) (panicked bool) {
		defer func() {
			if r := recover(); r != nil {
				panicked = true
			}
		}()
		_ = ap.ForAllExpiredFlowRecordsDo(cb)
		return false
	}
	first := true
	calls := 0
	cb := func(key FlowKey, rec *AggregationFlowRecord) error {
		calls++
		if first {
			first = false
			// reads the protocol with the accessor of the wrong width: panics by design
			ie, _, _ := rec.Record.GetInfoElementWithValue("protocolIdentifier")
			_ = ie.GetUnsigned16Value()
		}
		return nil
	}
	if !scan(cb) {
		t.Fatal("set-up: the first callback was expected to panic")
	}
	if n := ap.GetNumFlows(); n != 1 {
		t.Fatalf("flows held after the failed export = %d, want 1", n)
	}
	// The flow is held and its active deadline has passed: every further scan has to hand it
	// to the callback (which now succeeds) - at the latest after a fresh active timeout.
	before := calls
	for i := 0; i < 5; i++ {
		if err := ap.AggregateMsgByFlowKey(finding4Msg(t)); err != nil { // traffic goes on
			t.Fatal(err)
		}
		time.Sleep(active + 5*time.Millisecond)
		if scan(cb) {
			t.Fatal("unexpected second panic")
		}
	}
	if calls == before {
		t.Errorf("the flow is still held (GetNumFlows=%d) but was not handed to the callback in 5 further scans over %v: it is not scheduled any more",
			ap.GetNumFlows(), 5*(active+5*time.Millisecond))
	}
	if adv := ap.GetExpiryFromExpirePriorityQueue(); adv > MinExpiryTime+active {
		t.Errorf("a flow with a passed deadline is held but the advertised time to the next expiry is %v", adv)
	}
}
