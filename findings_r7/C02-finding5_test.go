// Finding 5 for property C02 on the CLEAN tree: a template re-defined under its id is refreshed
// over udp in its OLD form, so later data sets do not match the template on the wire.
//
// Place:   cp OUT/finding5_test.go WT/pkg/exporter/finding5_test.go
// Run:     cd WT && go test -count=1 -timeout 120s -run 'TestFinding5C02' ./pkg/exporter
//
//	(takes about 2 s: it waits for one real refresh tick, TempRefTimeout = 1 s)
//
// Clause violated: "data records carry each field big-endian at the template's width, or
// length-prefixed ... for variable-length elements" - judged, as any decoder does, against the
// template most recently put on the wire for that id.
// Input (udp exporter, every call returns nil): send template 300 = (sourcePodName,
// sourceTransportPort); later send template 300 again with another layout
// (sourceTransportPort, sourcePodName) - e.g. the application was reconfigured and keeps its
// template id, which RFC 7011 section 8.1 permits over udp; send data in the new layout (fine);
// wait for the periodic template refresh; send data in the new layout again.
// SendSet accepts the second template set and puts it on the wire, but updateTemplate keeps
// the FIRST definition ("if exist return"), so the refresh goroutine re-announces the old layout
// and from then on the exporter's own data sets (still accepted by its sanity check, the field
// count and minimum length being equal) contradict the template it has just sent: the decoder
// reads the port's octets as a length prefix.
// Expected: the refresh re-announces the layout last sent under the id (or the re-definition is
// refused with an error, which the test accepts).
// May overlap with the template-refresh properties; reported here because the observable is a
// data set that an independent decoder cannot decode with the exporter's own template.
package exporter_test

import (
	"bytes"
	"encoding/binary"
	"fmt"
	"net"
	"testing"
	"time"

	"github.com/vmware/go-ipfix/pkg/entities"
	"github.com/vmware/go-ipfix/pkg/exporter"
	"github.com/vmware/go-ipfix/pkg/registry"
)

type f5Field struct {
	id  uint16
	len uint16
	pen uint32
}

// f5Envelope checks the message header and the single set; returns set id and set body.
func f5Envelope(msg []byte) (uint16, []byte, error) {
	if len(msg) < 20 {
		return 0, nil, fmt.Errorf("message of %d bytes", len(msg))
	}
	if v := binary.BigEndian.Uint16(msg[0:2]); v != 10 {
		return 0, nil, fmt.Errorf("version %d", v)
	}
	if l := int(binary.BigEndian.Uint16(msg[2:4])); l != len(msg) {
		return 0, nil, fmt.Errorf("header length %d, %d bytes sent", l, len(msg))
	}
	setID := binary.BigEndian.Uint16(msg[16:18])
	if l := int(binary.BigEndian.Uint16(msg[18:20])); l != len(msg)-16 {
		return 0, nil, fmt.Errorf("set length %d does not cover the %d remaining bytes", l, len(msg)-16)
	}
	return setID, msg[20:], nil
}

// f5ParseTemplate decodes one template record that must fill the whole set body.
func f5ParseTemplate(body []byte) (uint16, []f5Field, error) {
	if len(body) < 4 {
		return 0, nil, fmt.Errorf("short template record")
	}
	id := binary.BigEndian.Uint16(body[0:2])
	n := int(binary.BigEndian.Uint16(body[2:4]))
	off := 4
	fields := make([]f5Field, 0, n)
	for i := 0; i < n; i++ {
		if off+4 > len(body) {
			return 0, nil, fmt.Errorf("template record truncated in field specifier %d", i)
		}
		f := f5Field{id: binary.BigEndian.Uint16(body[off:]), len: binary.BigEndian.Uint16(body[off+2:])}
		off += 4
		if f.id&0x8000 != 0 {
			if off+4 > len(body) {
				return 0, nil, fmt.Errorf("template record truncated in the enterprise number of field specifier %d", i)
			}
			f.id &= 0x7fff
			f.pen = binary.BigEndian.Uint32(body[off:])
			off += 4
		}
		fields = append(fields, f)
	}
	if off != len(body) {
		return 0, nil, fmt.Errorf("%d stray bytes after the template record", len(body)-off)
	}
	return id, fields, nil
}

// f5ParseData walks the set body with the template; returns the raw field values per record.
func f5ParseData(body []byte, fields []f5Field) ([][][]byte, error) {
	var recs [][][]byte
	off := 0
	for off < len(body) {
		var rec [][]byte
		for i, f := range fields {
			l := int(f.len)
			if f.len == 65535 {
				if off+1 > len(body) {
					return recs, fmt.Errorf("record %d field %d: no room for the length prefix", len(recs), i)
				}
				l = int(body[off])
				off++
				if l == 255 {
					if off+2 > len(body) {
						return recs, fmt.Errorf("record %d field %d: no room for the long length prefix", len(recs), i)
					}
					l = int(binary.BigEndian.Uint16(body[off:]))
					off += 2
				}
			}
			if off+l > len(body) {
				return recs, fmt.Errorf("record %d field %d: %d bytes announced, %d left in the set", len(recs), i, l, len(body)-off)
			}
			rec = append(rec, body[off:off+l])
			off += l
		}
		recs = append(recs, rec)
	}
	return recs, nil
}

func TestFinding5C02_RedefinedTemplateRefreshedInOldForm(t *testing.T) {
	registry.LoadRegistry()
	pc, err := net.ListenPacket("udp", "127.0.0.1:0")
	if err != nil {
		t.Fatal(err)
	}
	defer pc.Close()
	wire := make(chan []byte, 64)
	go func() {
		buf := make([]byte, 65536)
		for {
			n, _, err := pc.ReadFrom(buf)
			if err != nil {
				return
			}
			wire <- append([]byte{}, buf[:n]...)
		}
	}()
	exp, err := exporter.InitExportingProcess(exporter.ExporterInput{
		CollectorAddress: pc.LocalAddr().String(), CollectorProtocol: "udp", ObservationDomainID: 7, TempRefTimeout: 1,
	})
	if err != nil {
		t.Fatal(err)
	}
	defer exp.CloseConnToCollector()
	podIE, err := registry.GetInfoElement("sourcePodName", registry.AntreaEnterpriseID)
	if err != nil {
		t.Fatal(err)
	}
	portIE, err := registry.GetInfoElement("sourceTransportPort", registry.IANAEnterpriseID)
	if err != nil {
		t.Fatal(err)
	}
	const tid = 300

	// The independent decoder's state: the template last seen on the wire.
	var current []f5Field
	dataSets := 0
	consume := func(msg []byte) {
		t.Helper()
		setID, body, err := f5Envelope(msg)
		if err != nil {
			t.Fatalf("message % x: %v", msg, err)
		}
		if setID == 2 {
			id, fields, err := f5ParseTemplate(body)
			if err != nil || id != tid {
				t.Fatalf("template set % x: id %d, %v", body, id, err)
			}
			current = fields
			return
		}
		dataSets++
		recs, err := f5ParseData(body, current)
		if err != nil {
			t.Fatalf("data set #%d % x cannot be decoded with the template last sent for id %d (%+v): %v", dataSets, body, tid, current, err)
		}
		// locate the fields by element id in the template in force
		var pod, port []byte
		for i, f := range current {
			if f.id == 7 && f.pen == 0 {
				port = recs[0][i]
			} else {
				pod = recs[0][i]
			}
		}
		if len(recs) != 1 || !bytes.Equal(pod, []byte("pod")) || len(port) != 2 || binary.BigEndian.Uint16(port) != 443 {
			t.Fatalf("data set #%d % x decodes with the template last sent for id %d (%+v) to %q, want pod \"pod\", port 443", dataSets, body, tid, current, recs)
		}
	}
	drain := func(d time.Duration) {
		t.Helper()
		deadline := time.After(d)
		for {
			select {
			case m := <-wire:
				consume(m)
			case <-deadline:
				return
			}
		}
	}

	sendTemplate := func(ies []*entities.InfoElement) error {
		tset, err := entities.MakeTemplateSet(tid, ies)
		if err != nil {
			return err
		}
		_, err = exp.SendSet(tset)
		return err
	}
	sendData := func() {
		t.Helper()
		dset := entities.NewSet(false)
		if err := dset.PrepareSet(entities.Data, tid); err != nil {
			t.Fatal(err)
		}
		// new layout: port first, then the Pod name
		if err := dset.AddRecord([]entities.InfoElementWithValue{
			entities.NewUnsigned16InfoElement(portIE, 443), entities.NewStringInfoElement(podIE, "pod"),
		}, tid); err != nil {
			t.Fatal(err)
		}
		if _, err := exp.SendSet(dset); err != nil {
			t.Fatalf("SendSet(data in the new layout): %v", err)
		}
	}

	if err := sendTemplate([]*entities.InfoElement{podIE, portIE}); err != nil {
		t.Fatal(err)
	}
	if err := sendTemplate([]*entities.InfoElement{portIE, podIE}); err != nil {
		t.Logf("re-definition refused (acceptable): %v", err)
		return
	}
	sendData()
	drain(200 * time.Millisecond)
	if dataSets != 1 {
		t.Fatalf("%d data sets seen, want 1", dataSets)
	}
	// one refresh tick (1 s) passes
	drain(1500 * time.Millisecond)
	sendData()
	drain(300 * time.Millisecond)
	if dataSets != 2 {
		t.Fatalf("%d data sets seen, want 2", dataSets)
	}
}
