// Finding 4 for property C20 (part B, round 7) - fails on the CLEAN tree.
//
// Place:   copy to WT/cmd/collector/finding4_test.go   (package main, in-package test)
// Run:     cd WT && go test -count=1 -timeout 120s -run 'TestFinding4' ./cmd/collector
//
// Clause violated: "invalid queries are refused".
//
// Input: the store holds three entries; an HTTP server with the routes of run() receives
//     GET /records?count=%zz                (count is not even a decodable string)
//     GET /records?count=1;format=text      (';' is not a separator - net/url rejects the pair)
//     GET /records?count=1&format=%zz       (format is not a decodable string)
// Observed: 200 OK. flowRecordHandler reads the parameters with r.URL.Query(), which silently
// DROPS every key/value pair it cannot parse, so the handler sees "no count" / "no format" and
// answers with ALL entries in JSON: a caller that asked (badly) for one record gets the whole
// store, up to 4096 messages.
// Expected: 400 Bad Request like for count=-1, count=abc or format=xml (use url.ParseQuery and
// refuse when it fails).
//
// Why legitimate: the requests are accepted by Go's HTTP server and reach the handler; a count
// that cannot be decoded is as invalid as one that is not a number, and the "a;b" form is what
// older clients and hand-written curl lines send.
package main

import (
	"bufio"
	"fmt"
	"net"
	"net/http"
	"net/http/httptest"
	"testing"
)

func TestFinding4MalformedQueriesAreNotRefused(t *testing.T) {
	mutex.Lock()
	flowRecords = []string{"flow1", "flow2", "flow3"}
	mutex.Unlock()
	defer func() {
		mutex.Lock()
		flowRecords = nil
		mutex.Unlock()
	}()
	mux := http.NewServeMux() // as in run()
	mux.HandleFunc("/records", flowRecordHandler)
	mux.HandleFunc("/reset", resetRecordHandler)
	srv := httptest.NewServer(mux)
	defer srv.Close()

	get := func(target string) int {
		conn, err := net.Dial("tcp", srv.Listener.Addr().String())
		if err != nil {
			t.Fatal(err)
		}
		defer conn.Close()
		fmt.Fprintf(conn, "GET %s HTTP/1.1\r\nHost: collector\r\nConnection: close\r\n\r\n", target)
		resp, err := http.ReadResponse(bufio.NewReader(conn), nil)
		if err != nil {
			t.Fatalf("%s: %v", target, err)
		}
		defer resp.Body.Close()
		return resp.StatusCode
	}
	// sanity: the handler does refuse what it recognises as invalid
	for _, target := range []string{"/records?count=-1", "/records?count=abc", "/records?format=xml"} {
		if code := get(target); code != http.StatusBadRequest {
			t.Fatalf("GET %s: status %d, want 400", target, code)
		}
	}
	for _, target := range []string{"/records?count=%zz", "/records?count=1;format=text", "/records?count=1&format=%zz"} {
		if code := get(target); code != http.StatusBadRequest {
			t.Errorf("GET %s: status %d, want 400 (invalid query must be refused)", target, code)
		}
	}
}
