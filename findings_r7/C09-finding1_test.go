// Finding 1 for property C09 - fails on the CLEAN tree.
//
// Place:  copy to WT/pkg/exporter/finding1_test.go
// Run:    cd WT && go test -count=1 -timeout 120s -run 'TestFinding1C09' ./pkg/exporter
//
// Clause violated: "SendSet never transmits a data set unless a template with that id was previously sent on the
// same exporting process ...; in those cases it returns an error and writes nothing to the connection".
//
// Why the input is legitimate: every call is accepted without error: NewSet(false), PrepareSet(Data, id) and SendSet. A data set
// without records is what an application has in hand when its export timer fires and no flow is
// pending (it prepares the set, loops over zero flows, sends), or right after ResetSet+PrepareSet.
// The template check sits inside the loop over the records, so with zero records it never runs.
// The library's own TCP collector answers a data set for an unknown template by closing the
// session ("template 999 with obsDomainID 1 does not exist"), so the message is not harmless.
package exporter_test

import (
	"encoding/hex"
	"net"
	"sync"
	"testing"
	"time"

	"github.com/vmware/go-ipfix/pkg/entities"
	"github.com/vmware/go-ipfix/pkg/exporter"
)

type f1Peer struct {
	mu  sync.Mutex
	buf []byte
}

func f1Start(t *testing.T) (*f1Peer, *exporter.ExportingProcess) {
	t.Helper()
	l, err := net.Listen("tcp", "127.0.0.1:0")
	if err != nil {
		t.Fatal(err)
	}
	t.Cleanup(func() { l.Close() })
	p := &f1Peer{}
	go func() {
		c, err := l.Accept()
		if err != nil {
			return
		}
		defer c.Close()
		b := make([]byte, 70000)
		for {
			n, err := c.Read(b)
			p.mu.Lock()
			p.buf = append(p.buf, b[:n]...)
			p.mu.Unlock()
			if err != nil {
				return
			}
		}
	}()
	ep, err := exporter.InitExportingProcess(exporter.ExporterInput{
		CollectorAddress:    l.Addr().String(),
		CollectorProtocol:   "tcp",
		ObservationDomainID: 1,
	})
	if err != nil {
		t.Fatal(err)
	}
	t.Cleanup(ep.CloseConnToCollector)
	return p, ep
}

// take returns (and forgets) everything that reached the peer socket so far; it waits long
// enough for loopback delivery of what has already been written.
func (p *f1Peer) take() []byte {
	time.Sleep(300 * time.Millisecond)
	p.mu.Lock()
	defer p.mu.Unlock()
	b := p.buf
	p.buf = nil
	return b
}

func f1Template(t *testing.T, ep *exporter.ExportingProcess, id uint16, ies ...*entities.InfoElement) {
	t.Helper()
	s, err := entities.MakeTemplateSet(id, ies)
	if err != nil {
		t.Fatal(err)
	}
	if _, err := ep.SendSet(s); err != nil {
		t.Fatalf("template set refused: %v", err)
	}
}

func f1DataSet(t *testing.T, id uint16, records ...[]entities.InfoElementWithValue) entities.Set {
	t.Helper()
	s := entities.NewSet(false)
	if err := s.PrepareSet(entities.Data, id); err != nil {
		t.Fatal(err)
	}
	for _, r := range records {
		if err := s.AddRecord(r, id); err != nil {
			t.Fatalf("AddRecord refused: %v", err)
		}
	}
	return s
}

func TestFinding1C09EmptyDataSetForUnknownTemplate(t *testing.T) {
	peer, ep := f1Start(t)
	// No template has ever been sent on this exporting process.
	set := f1DataSet(t, 999)
	n, err := ep.SendSet(set)
	wire := peer.take()
	if err == nil || n != 0 || len(wire) != 0 {
		t.Fatalf("data set for template id 999, which was never sent, was transmitted: SendSet returned (%d, %v), peer received %d bytes: %s",
			n, err, len(wire), hex.EncodeToString(wire))
	}
}
