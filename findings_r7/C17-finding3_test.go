// Finding 3 for property C17 (CLEAN tree): in keep and drop mode a template that interleaves an
// unknown element with certain registry elements is refused altogether, so the unknown field is
// neither preserved (keep) nor merely omitted (drop), and the decodable known fields are lost too.
// Two groups of registry rows do this:
//   (a) standard IANA elements whose data type the library has no decoder for:
//       flowStartMicroseconds (154), flowEndMicroseconds (155), flowStartNanoseconds (156),
//       flowEndNanoseconds (157), basicList (291), subTemplateList (292), ... ;
//   (b) rows of the generated table that are no elements at all: id 416 (a deprecated id, row has
//       no name, type 255, length 0) and id 0 ("Unassigned"). These ids are "absent from the
//       registry" in every sense a user can see - no name, no type - yet the lookup by id
//       succeeds, so lenient mode does not treat them as unknown and then fails on type 255.
//
// Place:   copy to WT/pkg/collector/finding3_test.go (package collector, in-package: uses decodePacket)
// Run:     cd WT && go test -count=1 -run 'TestFinding3LenientModesRefuseWholeTemplate' ./pkg/collector
//
// Clause: "keep mode delivers each unknown field as an octet array holding exactly the bytes
// received"; "drop mode omits exactly the unknown fields" - quantified "for all templates
// interleaving known and unknown (IANA and enterprise) elements at any positions". For (b) also
// the doc comment of the modes: "will accept unknown IEs in templates".
//
// Input: keep / drop mode; template 300 = { sourceIPv4Address, enterprise 55555/7 (3 bytes),
// X (8 bytes), destinationTransportPort } with X = IANA 154 (flowStartMicroseconds, exported by
// YAF, nProbe, Cisco devices) or X = IANA 416; then one data record for it. The messages are
// well-formed RFC 7011.
//
// Observed: template refused ("API does not support micro and nano seconds types yet" /
// "API supports only valid information elements with datatypes given in RFC7011"), the data set
// that follows refused ("template 300 ... does not exist"); over TCP the connection is closed.
// Expected: template accepted; record delivered with sourceIPv4Address=10.1.2.3,
// destinationTransportPort=0xBEEF, the enterprise field as octets A1 A2 A3 in keep mode / left out
// in drop mode (X delivered as the library sees fit, e.g. as octets).
package collector

import (
	"bytes"
	"encoding/binary"
	"fmt"
	"testing"

	"github.com/vmware/go-ipfix/pkg/registry"
)

func f3Msg(obsDomain uint32, setID uint16, body []byte) []byte {
	msg := make([]byte, 20, 20+len(body))
	binary.BigEndian.PutUint16(msg[0:], 10)
	binary.BigEndian.PutUint16(msg[2:], uint16(20+len(body)))
	binary.BigEndian.PutUint32(msg[4:], 1700000000)
	binary.BigEndian.PutUint32(msg[12:], obsDomain)
	binary.BigEndian.PutUint16(msg[16:], setID)
	binary.BigEndian.PutUint16(msg[18:], uint16(4+len(body)))
	return append(msg, body...)
}

func TestFinding3LenientModesRefuseWholeTemplate(t *testing.T) {
	registry.LoadRegistry()
	for _, mode := range []DecodingMode{DecodingModeLenientKeepUnknown, DecodingModeLenientDropUnknown} {
		for _, x := range []uint16{154, 416} {
			t.Run(fmt.Sprintf("%s/IANA-%d", mode, x), func(t *testing.T) {
				cp, err := InitCollectingProcess(CollectorInput{Address: "127.0.0.1:0", Protocol: "tcp", MaxBufferSize: 65535, DecodingMode: mode})
				if err != nil {
					t.Fatal(err)
				}
				go func() {
					for range cp.GetMsgChan() {
					}
				}()
				defer cp.CloseMsgChan()

				tmpl := []byte{1, 44, 0, 4,
					0, 8, 0, 4,
					0x80, 7, 0, 3, 0, 0, 0xD9, 0x03,
					byte(x >> 8), byte(x), 0, 8,
					0, 11, 0, 2}
				if _, err := cp.decodePacket(bytes.NewBuffer(f3Msg(1, 2, tmpl)), "10.0.0.1:4739"); err != nil {
					t.Errorf("%s: template with the unknown element 55555/7 next to IANA %d refused: %v", mode, x, err)
				}
				rec := []byte{10, 1, 2, 3, 0xA1, 0xA2, 0xA3, 1, 2, 3, 4, 5, 6, 7, 8, 0xBE, 0xEF}
				m, err := cp.decodePacket(bytes.NewBuffer(f3Msg(1, 300, rec)), "10.0.0.1:4739")
				if err != nil {
					t.Fatalf("%s: data record refused: %v", mode, err)
				}
				els := m.GetSet().GetRecords()[0].GetOrderedElementList()
				var unknown [][]byte
				port := uint16(0)
				for _, e := range els {
					ie := e.GetInfoElement()
					if ie.EnterpriseId == 55555 {
						unknown = append(unknown, e.GetOctetArrayValue())
					}
					if ie.Name == "destinationTransportPort" {
						port = e.GetUnsigned16Value()
					}
				}
				if port != 0xBEEF {
					t.Errorf("%s: destinationTransportPort=%#x, want 0xbeef", mode, port)
				}
				if mode == DecodingModeLenientKeepUnknown && (len(unknown) != 1 || !bytes.Equal(unknown[0], []byte{0xA1, 0xA2, 0xA3})) {
					t.Errorf("keep mode: unknown field delivered as %v, want [A1 A2 A3]", unknown)
				}
				if mode == DecodingModeLenientDropUnknown && len(unknown) != 0 {
					t.Errorf("drop mode: unknown field delivered")
				}
			})
		}
	}
}
