// Finding 2 for property C04 (clean tree): a template set with more than one template record,
// and a template set followed by a data set in the same message.
//
// Place:   copy to WT/pkg/collector/finding2_test.go
// Run:     cd WT && go test -count=1 -timeout 120s -run 'TestFinding2_' ./pkg/collector
// Result:  FAILS on the clean, unchanged tree.
//
// Clause violated: "A data set is decoded with the most recent valid template received for
// the same (observation domain, template id) and is rejected when there is none."
//
// decodeTemplateSet decodes exactly one template record and returns; the rest of the set
// (and of the message) is dropped without an error and the message is delivered as if it
// had been handled completely. A newer definition carried as the second record of a
// template set is therefore never stored: later data sets are decoded against the STALE
// definition (silently wrong values), or rejected although a valid template was received.
//
// Why the input is legitimate: RFC 7011 section 3.3.1/3.4.1 - a Template Set contains one or
// more Template Records; exporters routinely announce all their templates in one set (and
// re-announce all of them in one set on every refresh, which is when definitions change).
// The collector accepts the message. The existing checks only use multi-record template
// sets whose later records repeat templates that are already known, which hides the loss.
package collector

import (
	"encoding/binary"
	"fmt"
	"net"
	"testing"
	"time"

	"github.com/vmware/go-ipfix/pkg/entities"
	"github.com/vmware/go-ipfix/pkg/registry"
)

type f2Field struct {
	id  uint16
	len uint16
	pen uint32 // 0: IANA
}

// f2Msg builds one IPFIX message (RFC 7011, section 3.1) out of complete sets.
func f2Msg(dom uint32, sets ...[]byte) []byte {
	b := make([]byte, 16)
	for _, s := range sets {
		b = append(b, s...)
	}
	binary.BigEndian.PutUint16(b[0:], 10)
	binary.BigEndian.PutUint16(b[2:], uint16(len(b)))
	binary.BigEndian.PutUint32(b[4:], 1700000000)
	binary.BigEndian.PutUint32(b[8:], 0)
	binary.BigEndian.PutUint32(b[12:], dom)
	return b
}

// f2Set builds one set: header (set id, length) followed by body.
func f2Set(id uint16, body ...[]byte) []byte {
	b := make([]byte, 4)
	for _, x := range body {
		b = append(b, x...)
	}
	binary.BigEndian.PutUint16(b[0:], id)
	binary.BigEndian.PutUint16(b[2:], uint16(len(b)))
	return b
}

// f2Template builds one template record.
func f2Template(id uint16, fields ...f2Field) []byte {
	b := make([]byte, 4)
	binary.BigEndian.PutUint16(b[0:], id)
	binary.BigEndian.PutUint16(b[2:], uint16(len(fields)))
	for _, f := range fields {
		x := make([]byte, 4)
		binary.BigEndian.PutUint16(x[0:], f.id)
		binary.BigEndian.PutUint16(x[2:], f.len)
		if f.pen != 0 {
			x[0] |= 0x80
			x = binary.BigEndian.AppendUint32(x, f.pen)
		}
		b = append(b, x...)
	}
	return b
}

type f2Collector struct {
	t    *testing.T
	cp   *CollectingProcess
	msgs chan *entities.Message
}

// f2Start starts a tcp collector on the loopback interface (public API only).
func f2Start(t *testing.T, mode DecodingMode) *f2Collector {
	registry.LoadRegistry()
	cp, err := InitCollectingProcess(CollectorInput{
		Address: "127.0.0.1:0", Protocol: "tcp", MaxBufferSize: 65535, DecodingMode: mode,
	})
	if err != nil {
		t.Fatal(err)
	}
	go cp.Start()
	deadline := time.Now().Add(10 * time.Second)
	for cp.GetAddress() == nil {
		if time.Now().After(deadline) {
			t.Fatal("collector did not start")
		}
		time.Sleep(5 * time.Millisecond)
	}
	c := &f2Collector{t: t, cp: cp, msgs: make(chan *entities.Message, 16)}
	go func() {
		for m := range cp.GetMsgChan() {
			c.msgs <- m
		}
	}()
	t.Cleanup(func() { cp.Stop() })
	return c
}

// send writes one message on a connection of its own and returns what the collector
// delivered for it, or nil when the collector refused the message (it then closes the
// connection, which is how a tcp collector reports a message it cannot decode).
func (c *f2Collector) send(msg []byte) *entities.Message {
	conn, err := net.Dial("tcp", c.cp.GetAddress().String())
	if err != nil {
		c.t.Fatal(err)
	}
	defer conn.Close()
	if _, err := conn.Write(msg); err != nil {
		c.t.Fatal(err)
	}
	closed := make(chan struct{})
	go func() {
		conn.SetReadDeadline(time.Now().Add(10 * time.Second))
		conn.Read(make([]byte, 1))
		close(closed)
	}()
	select {
	case m := <-c.msgs:
		return m
	case <-closed:
		select {
		case m := <-c.msgs:
			return m
		case <-time.After(200 * time.Millisecond):
			return nil
		}
	}
}

func f2Dump(m *entities.Message) string {
	if m == nil {
		return "<refused>"
	}
	s := ""
	for i, r := range m.GetSet().GetRecords() {
		s += fmt.Sprintf("\n      record %d (template %d): %v", i, r.GetTemplateID(), r.GetElementMap())
	}
	return s
}

func TestFinding2_NewerDefinitionInSecondRecordIsLost_StaleTemplateUsed(t *testing.T) {
	c := f2Start(t, DecodingModeStrict)
	// older definition of 257: sourceIPv4Address (4 octets)
	if m := c.send(f2Msg(7, f2Set(2, f2Template(257, f2Field{id: 8, len: 4})))); m == nil {
		t.Fatal("template 257 was refused")
	}
	// one template set: 256 = {srcPort, dstPort}, and the NEW 257 = {srcPort, dstPort}
	ports := []f2Field{{id: 7, len: 2}, {id: 11, len: 2}}
	if m := c.send(f2Msg(7, f2Set(2, f2Template(256, ports...), f2Template(257, ports...)))); m == nil {
		t.Fatal("the template set with two records was refused")
	}
	m := c.send(f2Msg(7, f2Set(257, []byte{0, 80, 1, 187})))
	if m == nil {
		t.Fatalf("data set 257 was rejected although a valid template 257 was received")
	}
	r := m.GetSet().GetRecords()[0]
	if _, _, stale := r.GetInfoElementWithValue("sourceIPv4Address"); stale {
		t.Errorf("data set 257 was decoded with the superseded definition of template 257: %v", r.GetElementMap())
	}
	if sp, _, ok := r.GetInfoElementWithValue("sourceTransportPort"); !ok || sp.GetUnsigned16Value() != 80 {
		t.Errorf("data set 257 was not decoded with the most recent template 257 (want 80 -> 443): %v", r.GetElementMap())
	}
}

func TestFinding2_TemplateInSecondRecordIsLost_DataRejected(t *testing.T) {
	c := f2Start(t, DecodingModeStrict)
	ports := []f2Field{{id: 7, len: 2}, {id: 11, len: 2}}
	if m := c.send(f2Msg(7, f2Set(2, f2Template(256, ports...), f2Template(258, f2Field{id: 8, len: 4})))); m == nil {
		t.Fatal("the template set with two records was refused")
	}
	if m := c.send(f2Msg(7, f2Set(256, []byte{0, 80, 1, 187}))); m == nil {
		t.Fatal("data set 256 was rejected")
	}
	if m := c.send(f2Msg(7, f2Set(258, []byte{10, 0, 0, 1}))); m == nil {
		t.Errorf("data set 258 was rejected although template 258 was received (and the message carrying it accepted)")
	}
}

// Variant: template set and the first data set in one message (what an exporter sends as
// the first message of a session). The data set is neither decoded nor rejected.
func TestFinding2_DataSetBehindTemplateSetIsSilentlyDropped(t *testing.T) {
	c := f2Start(t, DecodingModeStrict)
	ports := []f2Field{{id: 7, len: 2}, {id: 11, len: 2}}
	m := c.send(f2Msg(7, f2Set(2, f2Template(256, ports...)), f2Set(256, []byte{0, 80, 1, 187})))
	if m == nil {
		return // refused as a whole: the exporter at least learns about it
	}
	got := 0
	for _, r := range m.GetSet().GetRecords() {
		if _, _, ok := r.GetInfoElementWithValue("sourceTransportPort"); ok && m.GetSet().GetSetType() == entities.Data {
			got++
		}
	}
	select {
	case m2 := <-c.msgs:
		if m2.GetSet().GetSetType() == entities.Data {
			got += int(m2.GetSet().GetNumberOfRecords())
		}
	case <-time.After(300 * time.Millisecond):
	}
	if got != 1 {
		t.Errorf("the message was accepted but its data set (1 record) was neither decoded nor rejected: %d data records delivered", got)
	}
}
