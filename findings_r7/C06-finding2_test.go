// FINDING 2 (property C06) - fails on the CLEAN tree.
//
// Place at:  WT/pkg/intermediate/finding2_test.go
// Run with:  cd WT && go test -count=1 -timeout 120s -run 'TestFinding2' ./pkg/intermediate
//
// Clause violated: "the advertised time to the next expiry matches the earliest deadline".
//
// Input: both expiry timeouts are time.Duration(math.MaxInt64), the idiomatic Go way of saying
// "never" (InitAggregationProcess accepts it, and the empty process advertises it faithfully:
// GetExpiryFromExpirePriorityQueue() == 2562047h47m16.85s). One ordinary record arrives and
// GetExpiryFromExpirePriorityQueue is read within MinExpiryTime (100 ms, the library default)
// of the arrival - which is exactly what a caller does who re-arms its expiry timer after
// every batch of records.
//
// Observed: 100ms. The earliest deadline is ~292 years away; GetExpiryFromExpirePriorityQueue
// computes MinExpiryTime + (deadline - now), the sum overflows int64, the "< 0" branch that is
// meant for deadlines in the past takes it for a passed deadline and returns MinExpiryTime.
// 150 ms later the same call returns 2562047h47m16.8s again. Any pair of timeouts within
// MinExpiryTime of the maximum duration shows it. A caller that sleeps for the advertised time
// wakes up for nothing; a test oracle that compares the advertised time with the earliest
// deadline is off by 292 years.
//
// aggregate_test.go's init() sets MinExpiryTime to 0 for the package's own tests; the test
// below puts the library default (100 ms) back for its own duration. Public API only.
package intermediate

import (
	"math"
	"net"
	"testing"
	"time"

	"github.com/vmware/go-ipfix/pkg/entities"
	"github.com/vmware/go-ipfix/pkg/registry"
)

func finding2Msg(t *testing.T) *entities.Message {
	t.Helper()
	registry.LoadRegistry()
	mk := func(name string, ent uint32) *entities.InfoElement {
		ie, err := registry.GetInfoElement(name, ent)
		if err != nil {
			t.Fatal(err)
		}
		return ie
	}
	elements := []entities.InfoElementWithValue{
		entities.NewIPAddressInfoElement(mk("sourceIPv4Address", 0), net.ParseIP("10.0.0.1").To4()),
		entities.NewIPAddressInfoElement(mk("destinationIPv4Address", 0), net.ParseIP("10.0.0.2").To4()),
		entities.NewUnsigned16InfoElement(mk("sourceTransportPort", 0), 1234),
		entities.NewUnsigned16InfoElement(mk("destinationTransportPort", 0), 80),
		entities.NewUnsigned8InfoElement(mk("protocolIdentifier", 0), 6),
		entities.NewUnsigned8InfoElement(mk("flowType", registry.AntreaEnterpriseID), registry.FlowTypeIntraNode),
	}
	set := entities.NewSet(false)
	if err := set.PrepareSet(entities.Data, 256); err != nil {
		t.Fatal(err)
	}
	if err := set.AddRecord(elements, 256); err != nil {
		t.Fatal(err)
	}
	msg := entities.NewMessage(false)
	msg.AddSet(set)
	return msg
}

func TestFinding2AdvertisedExpiryOverflows(t *testing.T) {
	saved := MinExpiryTime
	MinExpiryTime = 100 * time.Millisecond // the library's default
	defer func() { MinExpiryTime = saved }()

	never := time.Duration(math.MaxInt64)
	ch := make(chan *entities.Message)
	ap, err := InitAggregationProcess(AggregationInput{
		MessageChan:           ch,
		WorkerNum:             1,
		ActiveExpiryTimeout:   never,
		InactiveExpiryTimeout: never,
	})
	if err != nil {
		t.Fatalf("InitAggregationProcess refused the configuration: %v", err)
	}
	t.Logf("no flow held:        advertised %v", ap.GetExpiryFromExpirePriorityQueue())
	if err := ap.AggregateMsgByFlowKey(finding2Msg(t)); err != nil {
		t.Fatal(err)
	}
	got := ap.GetExpiryFromExpirePriorityQueue()
	t.Logf("right after arrival: advertised %v", got)
	// The earliest deadline is (just under) 292 years away. Be generous: anything above a
	// year is accepted.
	if got < 365*24*time.Hour {
		t.Errorf("one flow held, earliest deadline ~292 years away, but the advertised time to the next expiry is %v", got)
	}
	// nothing is due, of course
	calls := 0
	if err := ap.ForAllExpiredFlowRecordsDo(func(FlowKey, *AggregationFlowRecord) error { calls++; return nil }); err != nil {
		t.Fatal(err)
	}
	if calls != 0 {
		t.Errorf("callback invoked %d times although nothing is due", calls)
	}
	time.Sleep(150 * time.Millisecond)
	t.Logf("150 ms later:        advertised %v", ap.GetExpiryFromExpirePriorityQueue())
}
