// Finding 1 for property C19 (CLEAN tree): a data record that carries a string which is not
// valid UTF-8 is silently NOT published to Kafka.
//
// Place:   copy to WT/pkg/kafka/producer/convertor/test/finding1_test.go
// Run:     cd WT && go test -count=1 -timeout 120s -run 'TestFinding1' ./pkg/kafka/producer/convertor/test
//
// Clause violated: "For every IPFIX message handed to the Kafka producer exactly one Kafka
// message is published per data record, in record order" (quantified over "records of arbitrary
// field values"). Here a message of three records yields two Kafka messages; the middle record
// disappears (the only trace is a klog error line), and the consumer can never recover it.
//
// Why: both shipped schemas declare the Kubernetes metadata as proto3 `string`; proto.Marshal
// refuses such fields when they are not valid UTF-8 ("string field contains invalid UTF-8"),
// SendFlowMessage logs the error and returns without sending anything.
//
// Why the input is legitimate: every step is accepted by the library. The library's own
// exporting process sends the record (SendSet returns no error), the library's collecting
// process decodes it and delivers it on GetMsgChan() with the bytes intact, and that very
// message is handed to PublishIPFIXMessages. Such values occur in practice when an exporter cuts
// a long name to a byte limit in the middle of a multi-byte character (here "pod-é" cut after
// the first byte of 'é'), or simply sends Latin-1 text.
package test

import (
	"encoding/binary"
	"testing"
	"time"

	"github.com/IBM/sarama"
	saramamock "github.com/IBM/sarama/mocks"
	"google.golang.org/protobuf/proto"

	"github.com/vmware/go-ipfix/pkg/collector"
	"github.com/vmware/go-ipfix/pkg/entities"
	"github.com/vmware/go-ipfix/pkg/exporter"
	"github.com/vmware/go-ipfix/pkg/kafka/producer"
	"github.com/vmware/go-ipfix/pkg/kafka/producer/protobuf"
	"github.com/vmware/go-ipfix/pkg/registry"
)

type finding1Reporter struct{ t *testing.T }

func (r finding1Reporter) Errorf(format string, args ...interface{}) {
	r.t.Logf("mock producer: "+format, args...)
}

func TestFinding1InvalidUTF8StringDropsRecord(t *testing.T) {
	// 1. a real collecting process and a real exporting process of the library
	cp, err := collector.InitCollectingProcess(collector.CollectorInput{Address: "127.0.0.1:0", Protocol: "tcp"})
	if err != nil {
		t.Fatal(err)
	}
	go cp.Start()
	defer cp.Stop()
	for i := 0; cp.GetAddress() == nil; i++ {
		if i > 500 {
			t.Fatal("collector did not start")
		}
		time.Sleep(10 * time.Millisecond)
	}
	ep, err := exporter.InitExportingProcess(exporter.ExporterInput{
		CollectorAddress:    cp.GetAddress().String(),
		CollectorProtocol:   "tcp",
		ObservationDomainID: 7,
	})
	if err != nil {
		t.Fatal(err)
	}
	defer ep.CloseConnToCollector()

	portIE, _ := registry.GetInfoElement("sourceTransportPort", registry.IANAEnterpriseID)
	podIE, _ := registry.GetInfoElement("sourcePodName", registry.AntreaEnterpriseID)
	templateID := ep.NewTemplateID()
	templateSet, err := entities.MakeTemplateSet(templateID, []*entities.InfoElement{portIE, podIE})
	if err != nil {
		t.Fatal(err)
	}
	dataSet := entities.NewSet(false)
	if err := dataSet.PrepareSet(entities.Data, templateID); err != nil {
		t.Fatal(err)
	}
	cut := "pod-é"[:5] // "pod-" followed by the first of the two bytes of 'é'
	pods := []string{"pod-a", cut, "pod-c"}
	for i, pod := range pods {
		err := dataSet.AddRecord([]entities.InfoElementWithValue{
			entities.NewUnsigned16InfoElement(portIE, uint16(1000+i)),
			entities.NewStringInfoElement(podIE, pod),
		}, templateID)
		if err != nil {
			t.Fatalf("the library refused record %d: %v", i, err)
		}
	}

	// 2. the collector's messages, handed to the Kafka producer exactly as delivered
	var delivered []*entities.Message
	received := make(chan struct{})
	go func() {
		defer close(received)
		for i := 0; i < 2; i++ {
			select {
			case m := <-cp.GetMsgChan():
				delivered = append(delivered, m)
			case <-time.After(20 * time.Second):
				return
			}
		}
	}()
	if _, err := ep.SendSet(templateSet); err != nil {
		t.Fatalf("exporter refused the template: %v", err)
	}
	if _, err := ep.SendSet(dataSet); err != nil {
		t.Fatalf("exporter refused the data set: %v", err)
	}
	<-received
	if len(delivered) != 2 || delivered[1].GetSet().GetSetType() != entities.Data {
		t.Fatalf("collector delivered %d messages, expected a template and a data message", len(delivered))
	}
	recs := delivered[1].GetSet().GetRecords()
	if len(recs) != len(pods) {
		t.Fatalf("collector decoded %d records, want %d", len(recs), len(pods))
	}
	for i, rec := range recs {
		el, _, _ := rec.GetInfoElementWithValue("sourcePodName")
		if el.GetStringValue() != pods[i] {
			t.Fatalf("collector changed record %d: %q", i, el.GetStringValue())
		}
	}

	for _, schema := range []string{"FlowType1", "FlowType2"} {
		cfg := sarama.NewConfig()
		cfg.Producer.Return.Successes = true
		mock := saramamock.NewAsyncProducer(finding1Reporter{t}, cfg)
		conv := NewFlowType1Convertor()
		if schema == "FlowType2" {
			conv = NewFlowType2Convertor()
		}
		kp, err := producer.NewKafkaProducer(producer.ProducerInput{KafkaTopic: "flows", KafkaVersion: sarama.DefaultVersion, ProtoSchemaConvertor: conv})
		if err != nil {
			t.Fatal(err)
		}
		kp.SetSaramaProducer(mock)
		for range pods {
			mock.ExpectInputAndSucceed()
		}
		msgs := make(chan *entities.Message, len(delivered))
		for _, m := range delivered {
			msgs <- m
		}
		close(msgs)

		kp.PublishIPFIXMessages(msgs)
		mock.AsyncClose()
		var gotPods []string
		for km := range mock.Successes() {
			b, _ := km.Value.Encode()
			if len(b) < 4 || int(binary.BigEndian.Uint32(b)) != len(b)-4 {
				t.Errorf("%s: bad length prefix in %x", schema, b)
				continue
			}
			if schema == "FlowType1" {
				f := &protobuf.FlowType1{}
				if err := proto.Unmarshal(b[4:], f); err != nil {
					t.Errorf("%s: %v", schema, err)
				}
				gotPods = append(gotPods, f.SrcPodName)
			} else {
				f := &protobuf.FlowType2{}
				if err := proto.Unmarshal(b[4:], f); err != nil {
					t.Errorf("%s: %v", schema, err)
				}
				gotPods = append(gotPods, f.SrcPodName)
			}
		}
		if len(gotPods) != len(pods) {
			t.Errorf("%s: %d Kafka messages published for a message of %d data records; source pod names published: %q, in the message: %q",
				schema, len(gotPods), len(pods), gotPods, pods)
		}
	}
}
