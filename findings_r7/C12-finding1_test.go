// Finding 1 for property C12 (CLEAN tree): the collecting process keeps reading a message
// after it has handed it to the consumer, so a consumer that modifies the message it
// received races with the connection's reader goroutine.
//
// Place: copy to WT/pkg/collector/finding1_test.go
// Run:   cd WT && go test -race -count=1 -timeout 120s -run TestFinding1ConsumerOwnsDeliveredMessage ./pkg/collector
//
// Clause violated: "every message accepted from a connection is delivered to the consumer ...
// without data races".
//
// What happens: decodePacket sends the message on the (unbuffered) message channel and then
// returns it to the transport reader, which evaluates
//     message.GetObsDomainID(), message.GetSet().GetSetType(), message.GetSet().GetNumberOfRecords()   (pkg/collector/tcp.go, klog.V(4).InfoS arguments)
//     message.GetExportAddress(), message.GetSet().GetNumberOfRecords(), message.GetObsDomainID()      (pkg/collector/udp.go, klog.V(4).Infof arguments)
// AFTER the consumer already has the message. The arguments of klog.V(4).InfoS(...) are
// evaluated at every verbosity, so these reads always happen. Nothing orders them with what
// the consumer does to the message it now owns.
//
// Why the input is legitimate: the consumer only uses public setters of entities.Message on a
// message it received from GetMsgChan(): SetObsDomainID (a mediator that renumbers observation
// domains before re-exporting, RFC 6183) and SetExportAddress (normalising the exporter address
// before handing the message to the aggregation process, which copies it into
// originalExporterIPv4Address). Nothing in the API says a delivered message is still shared
// with the library. The traffic itself is a plain template + data messages from one exporter.
//
// Observed on the clean tree: "WARNING: DATA RACE" (write in Message.SetObsDomainID /
// SetExportAddress by the consumer goroutine, read in Message.GetObsDomainID /
// GetExportAddress by the collector goroutine from handleTCPClient.func3 / createUDPClient.func1);
// the test fails with "race detected during execution of test". Seen in 20 of 20 runs.
package collector_test

import (
	"encoding/binary"
	"net"
	"testing"
	"time"

	"github.com/vmware/go-ipfix/pkg/collector"
	"github.com/vmware/go-ipfix/pkg/registry"
)

func finding1Msg(seq, dom uint32, set []byte) []byte {
	b := make([]byte, 16, 16+len(set))
	binary.BigEndian.PutUint16(b[0:], 10)
	binary.BigEndian.PutUint16(b[2:], uint16(16+len(set)))
	binary.BigEndian.PutUint32(b[4:], uint32(time.Now().Unix()))
	binary.BigEndian.PutUint32(b[8:], seq)
	binary.BigEndian.PutUint32(b[12:], dom)
	return append(b, set...)
}

func finding1Run(t *testing.T, protocol string) {
	registry.LoadRegistry()
	cp, err := collector.InitCollectingProcess(collector.CollectorInput{
		Address:       "127.0.0.1:0",
		Protocol:      protocol,
		MaxBufferSize: 65535,
	})
	if err != nil {
		t.Fatal(err)
	}
	go cp.Start()
	for deadline := time.Now().Add(5 * time.Second); cp.GetAddress() == nil; time.Sleep(time.Millisecond) {
		if time.Now().After(deadline) {
			t.Fatal("collector did not start")
		}
	}
	const numMsgs = 50
	got := make(chan int)
	go func() {
		n := 0
		for n < numMsgs {
			msg := <-cp.GetMsgChan()
			// The consumer owns the message now: renumber the observation domain and
			// normalise the exporter address before passing it on.
			msg.SetObsDomainID(msg.GetObsDomainID() + 1000)
			msg.SetExportAddress(net.ParseIP(msg.GetExportAddress()).String())
			n++
		}
		got <- n
	}()

	conn, err := net.Dial(protocol, cp.GetAddress().String())
	if err != nil {
		t.Fatal(err)
	}
	defer conn.Close()
	// template 256: sourceIPv4Address(8)[4], packetDeltaCount(2)[8]
	tmpl := []byte{0, 2, 0, 16, 1, 0, 0, 2, 0, 8, 0, 4, 0, 2, 0, 8}
	if _, err := conn.Write(finding1Msg(0, 7, tmpl)); err != nil {
		t.Fatal(err)
	}
	for i := 1; i < numMsgs; i++ {
		data := []byte{1, 0, 0, 16, 10, 0, 0, byte(i), 0, 0, 0, 0, 0, 0, 0, byte(i)}
		if _, err := conn.Write(finding1Msg(uint32(i), 7, data)); err != nil {
			t.Fatal(err)
		}
		if protocol == "udp" {
			time.Sleep(2 * time.Millisecond) // do not overrun the socket buffer
		}
	}
	select {
	case <-got:
	case <-time.After(20 * time.Second):
		t.Error("not all messages were delivered")
	}
	conn.Close()
	stopped := make(chan struct{})
	go func() { cp.Stop(); close(stopped) }()
	select {
	case <-stopped:
	case <-time.After(10 * time.Second):
		t.Fatal("Stop did not return")
	}
}

func TestFinding1ConsumerOwnsDeliveredMessage(t *testing.T) {
	t.Run("tcp", func(t *testing.T) { finding1Run(t, "tcp") })
	t.Run("udp", func(t *testing.T) { finding1Run(t, "udp") })
}
