// Finding 4 (property C14, CLEAN tree): InitExportingProcess accepts every network name
// net.Dial accepts, but starts its background work only for the exact strings "udp" and
// "tcp". With "udp4"/"udp6" the process works, yet NO template is ever retransmitted; with
// "tcp4"/"tcp6" no connection check runs, so a collector-side close is never noticed (the
// first send after it reports success and vanishes). With a TLSClientConfig and any name
// other than "tcp"/"udp" (also "tcp4", "TCP", a typo) InitExportingProcess returns
// (process, nil) whose connection is nil: CloseConnToCollector - which the property calls
// "idempotent and safe from any goroutine" - panics with a nil pointer dereference, and so
// does SendSet.
//
// Place:   copy to WT/pkg/exporter/finding4_test.go
// Command: cd WT && go test -count=1 -timeout 60s -run 'TestFinding4_' ./pkg/exporter
//
// Clauses violated: "over UDP every template sent so far is retransmitted each refresh
// interval" (udp4); "over TCP a collector-side close is noticed within the check interval
// and subsequent sends fail instead of vanishing" (tcp4); "Closing is idempotent and safe
// from any goroutine" (TLS configuration + tcp4).
//
// Why the input is legitimate / why a test author would skip it: the comment on
// ExporterInput.CollectorProtocol says `We support "tcp" and "udp" protocols`, so "udp4" is
// easily filed under "not supported". But the library does not refuse it: the value is
// handed to net.Dial, which documents "udp4"/"udp6"/"tcp4"/"tcp6" as the UDP/TCP networks
// restricted to one address family, the process is returned without error and every
// message is sent correctly - these ARE UDP and TCP sessions. ExporterInput.IsIPv6 is not
// read anywhere in the library, so naming the family in the network is the only way an
// application can pin it for a dual-stack collector host name. Nothing tells the
// application that refresh / connection checking are silently off; with TLS it gets a
// process that crashes on its first use instead of an error from InitExportingProcess.
// (Lowest-confidence finding of the four: it hinges on reading "over UDP" / "over TCP" as
// the transport actually used rather than the literal configuration string.)
package exporter

import (
	"net"
	"testing"
	"time"

	"github.com/vmware/go-ipfix/pkg/entities"
)

func finding4Template(t *testing.T, ep *ExportingProcess) entities.Set {
	t.Helper()
	ie := entities.NewInfoElement("sourceIPv4Address", 8, entities.Ipv4Address, 0, 4)
	elem, err := entities.DecodeAndCreateInfoElementWithValue(ie, nil)
	if err != nil {
		t.Fatal(err)
	}
	id := ep.NewTemplateID()
	set := entities.NewSet(false)
	if err := set.PrepareSet(entities.Template, id); err != nil {
		t.Fatal(err)
	}
	if err := set.AddRecord([]entities.InfoElementWithValue{elem}, id); err != nil {
		t.Fatal(err)
	}
	return set
}

func TestFinding4_UDP4NeverRefreshes(t *testing.T) {
	addr, _ := net.ResolveUDPAddr("udp4", "127.0.0.1:0")
	server, err := net.ListenUDP("udp4", addr)
	if err != nil {
		t.Fatal(err)
	}
	defer server.Close()
	msgs := make(chan int, 100)
	go func() {
		b := make([]byte, 65536)
		for {
			n, _, err := server.ReadFromUDP(b)
			if err != nil {
				return
			}
			msgs <- n
		}
	}()
	ep, err := InitExportingProcess(ExporterInput{
		CollectorAddress:    server.LocalAddr().String(),
		CollectorProtocol:   "udp4",
		ObservationDomainID: 1,
		TempRefTimeout:      1,
	})
	if err != nil {
		t.Skipf("the library refuses the network name (then this finding does not apply): %v", err)
	}
	defer ep.CloseConnToCollector()
	if _, err := ep.SendSet(finding4Template(t, ep)); err != nil {
		t.Fatal(err)
	}
	select {
	case <-msgs:
	case <-time.After(time.Second):
		t.Fatal("the template did not arrive")
	}
	select {
	case <-msgs:
	case <-time.After(3500 * time.Millisecond):
		t.Errorf("UDP session (network \"udp4\"), TempRefTimeout 1 s: no template retransmitted within 3.5 s")
	}
}

func TestFinding4_TCP4NeverChecksConnection(t *testing.T) {
	listener, err := net.Listen("tcp4", "127.0.0.1:0")
	if err != nil {
		t.Fatal(err)
	}
	defer listener.Close()
	peerClosed := make(chan struct{})
	go func() {
		conn, err := listener.Accept()
		if err != nil {
			return
		}
		conn.Close()
		close(peerClosed)
	}()
	const interval = 100 * time.Millisecond
	ep, err := InitExportingProcess(ExporterInput{
		CollectorAddress:    listener.Addr().String(),
		CollectorProtocol:   "tcp4",
		ObservationDomainID: 1,
		CheckConnInterval:   interval,
	})
	if err != nil {
		t.Skipf("the library refuses the network name (then this finding does not apply): %v", err)
	}
	defer ep.CloseConnToCollector()
	<-peerClosed
	time.Sleep(10 * interval)
	if n, err := ep.SendSet(finding4Template(t, ep)); err == nil {
		t.Errorf("TCP session (network \"tcp4\"): ten check intervals after the collector closed, SendSet reports success (%d bytes): the close was not noticed", n)
	}
}

func TestFinding4_TLSConfigWithTCP4GivesProcessWithoutConnection(t *testing.T) {
	// No listener is needed: InitExportingProcess does not dial at all on this path.
	ep, err := InitExportingProcess(ExporterInput{
		CollectorAddress:    "127.0.0.1:4739",
		CollectorProtocol:   "tcp4",
		ObservationDomainID: 1,
		TLSClientConfig:     &ExporterTLSClientConfig{ServerName: "collector.example"},
	})
	if err != nil {
		t.Skipf("the library refuses the configuration (then this finding does not apply): %v", err)
	}
	if ep == nil {
		t.Fatal("nil process and nil error")
	}
	defer func() {
		if r := recover(); r != nil {
			t.Errorf("InitExportingProcess returned a process and no error, but CloseConnToCollector panics: %v", r)
		}
	}()
	ep.CloseConnToCollector()
}
