// Finding 1 for property C02 on the CLEAN tree: reduced-size encoding (RFC 7011 section 6.2).
//
// Place:   cp OUT/finding1_test.go WT/pkg/exporter/finding1_test.go
// Run:     cd WT && go test -count=1 -timeout 120s -run 'TestFinding1C02' ./pkg/exporter
//
// Clause violated: "data records carry each field big-endian at the template's width" (and, for
// the last-field case, the exporter does not put anything on the wire at all: SendSet panics).
//
// Input: a user-registered element of an integer or float type whose length is smaller than the
// natural width of the type, e.g. unsigned64 in 4 octets - the reduced-size encoding of RFC 7011
// section 6.2 that routers and probes use all the time (octetDeltaCount in 4 octets ...).
// Every step is accepted by the library: entities.NewInfoElement takes the length as an explicit
// argument, registry.PutInfoElement registers the element, the template set is built and sent
// (the template record correctly announces width 4), AddRecord accepts the value, SendSet returns
// no error. On the wire however the field does not hold the value at the template's width:
// encodeInfoElementValueToBuff always writes the natural width (PutUint64 ...) at the field's
// offset while GetLength() reports the reduced width, so
//   - a field followed by enough other bytes is emitted as the HIGH-order bytes of the natural
//     encoding (443 as unsigned32/2 goes out as 00 00, -2 as signed32/2 as ff ff, 0x0a0b0c0d as
//     unsigned64/4 followed by 4 more bytes as 00 00 00 00);
//   - a field at (or too close to) the end of the record makes SendSet panic (index out of range
//     in encoding/binary.PutUintNN, reached through dataRecSanityCheck -> GetBuffer).
//
// Expected: either the low-order bytes (the value, big-endian, at the template's width; float64
// at width 4 as float32), or a refusal (error from AddRecord/SendSet) - never a wrong value or a
// crash. The test accepts a refusal.
package exporter_test

import (
	"bytes"
	"encoding/binary"
	"fmt"
	"io"
	"math"
	"net"
	"testing"
	"time"

	"github.com/vmware/go-ipfix/pkg/entities"
	"github.com/vmware/go-ipfix/pkg/exporter"
	"github.com/vmware/go-ipfix/pkg/registry"
)

type f1Field struct {
	id  uint16
	len uint16
	pen uint32
}

// f1Peer is a tcp peer that hands over whole messages as framed by the header length.
type f1Peer struct {
	ln   net.Listener
	msgs chan []byte
}

func f1NewPeer(t *testing.T) *f1Peer {
	ln, err := net.Listen("tcp", "127.0.0.1:0")
	if err != nil {
		t.Fatal(err)
	}
	p := &f1Peer{ln: ln, msgs: make(chan []byte, 64)}
	go func() {
		c, err := ln.Accept()
		if err != nil {
			return
		}
		defer c.Close()
		for {
			hdr := make([]byte, 16)
			if _, err := io.ReadFull(c, hdr); err != nil {
				return
			}
			l := int(binary.BigEndian.Uint16(hdr[2:4]))
			if l < 16 {
				p.msgs <- hdr
				return
			}
			rest := make([]byte, l-16)
			if _, err := io.ReadFull(c, rest); err != nil {
				return
			}
			p.msgs <- append(hdr, rest...)
		}
	}()
	return p
}

func (p *f1Peer) next(t *testing.T) []byte {
	t.Helper()
	select {
	case m := <-p.msgs:
		return m
	case <-time.After(5 * time.Second):
		t.Fatalf("no message arrived at the peer")
	}
	return nil
}

// f1Envelope checks the message header and the single set; returns set id and set body.
func f1Envelope(msg []byte) (uint16, []byte, error) {
	if len(msg) < 20 {
		return 0, nil, fmt.Errorf("message of %d bytes", len(msg))
	}
	if v := binary.BigEndian.Uint16(msg[0:2]); v != 10 {
		return 0, nil, fmt.Errorf("version %d", v)
	}
	if l := int(binary.BigEndian.Uint16(msg[2:4])); l != len(msg) {
		return 0, nil, fmt.Errorf("header length %d, %d bytes sent", l, len(msg))
	}
	setID := binary.BigEndian.Uint16(msg[16:18])
	if l := int(binary.BigEndian.Uint16(msg[18:20])); l != len(msg)-16 {
		return 0, nil, fmt.Errorf("set length %d does not cover the %d remaining bytes", l, len(msg)-16)
	}
	return setID, msg[20:], nil
}

// f1ParseTemplate decodes one template record that must fill the whole set body.
func f1ParseTemplate(body []byte) (uint16, []f1Field, error) {
	if len(body) < 4 {
		return 0, nil, fmt.Errorf("short template record")
	}
	id := binary.BigEndian.Uint16(body[0:2])
	n := int(binary.BigEndian.Uint16(body[2:4]))
	off := 4
	fields := make([]f1Field, 0, n)
	for i := 0; i < n; i++ {
		if off+4 > len(body) {
			return 0, nil, fmt.Errorf("template record truncated in field specifier %d", i)
		}
		f := f1Field{id: binary.BigEndian.Uint16(body[off:]), len: binary.BigEndian.Uint16(body[off+2:])}
		off += 4
		if f.id&0x8000 != 0 {
			if off+4 > len(body) {
				return 0, nil, fmt.Errorf("template record truncated in the enterprise number of field specifier %d", i)
			}
			f.id &= 0x7fff
			f.pen = binary.BigEndian.Uint32(body[off:])
			off += 4
		}
		fields = append(fields, f)
	}
	if off != len(body) {
		return 0, nil, fmt.Errorf("%d stray bytes after the template record", len(body)-off)
	}
	return id, fields, nil
}

// f1ParseData walks the set body with the template; returns the raw field values per record.
func f1ParseData(body []byte, fields []f1Field) ([][][]byte, error) {
	var recs [][][]byte
	off := 0
	for off < len(body) {
		var rec [][]byte
		for i, f := range fields {
			l := int(f.len)
			if f.len == 65535 {
				if off+1 > len(body) {
					return recs, fmt.Errorf("record %d field %d: no room for the length prefix", len(recs), i)
				}
				l = int(body[off])
				off++
				if l == 255 {
					if off+2 > len(body) {
						return recs, fmt.Errorf("record %d field %d: no room for the long length prefix", len(recs), i)
					}
					l = int(binary.BigEndian.Uint16(body[off:]))
					off += 2
				}
			}
			if off+l > len(body) {
				return recs, fmt.Errorf("record %d field %d: %d bytes announced, %d left in the set", len(recs), i, l, len(body)-off)
			}
			rec = append(rec, body[off:off+l])
			off += l
		}
		recs = append(recs, rec)
	}
	return recs, nil
}

func f1NewExporter(t *testing.T, p *f1Peer) *exporter.ExportingProcess {
	t.Helper()
	exp, err := exporter.InitExportingProcess(exporter.ExporterInput{
		CollectorAddress: p.ln.Addr().String(), CollectorProtocol: "tcp", ObservationDomainID: 7,
	})
	if err != nil {
		t.Fatal(err)
	}
	return exp
}

// f1SendTemplate sends a template through the public API and returns the field specifiers an
// independent decoder reads from the wire.
func f1SendTemplate(t *testing.T, exp *exporter.ExportingProcess, p *f1Peer, tid uint16, ies []*entities.InfoElement) ([]f1Field, error) {
	t.Helper()
	tset, err := entities.MakeTemplateSet(tid, ies)
	if err != nil {
		t.Fatalf("MakeTemplateSet: %v", err)
	}
	if _, err := exp.SendSet(tset); err != nil {
		t.Fatalf("SendSet(template): %v", err)
	}
	msg := p.next(t)
	setID, body, err := f1Envelope(msg)
	if err != nil {
		return nil, fmt.Errorf("template message % x: %v", msg, err)
	}
	if setID != 2 {
		return nil, fmt.Errorf("template message % x: set id %d", msg, setID)
	}
	gotID, fields, err := f1ParseTemplate(body)
	if err != nil {
		return nil, fmt.Errorf("template set % x: %v", body, err)
	}
	if gotID != tid || len(fields) != len(ies) {
		return nil, fmt.Errorf("template set % x: id %d with %d fields, want id %d with %d fields", body, gotID, len(fields), tid, len(ies))
	}
	return fields, nil
}

type f1Case struct {
	name string
	typ  entities.IEDataType
	len  uint16
	mk   func(ie *entities.InfoElement) entities.InfoElementWithValue
	want []byte
}

func f1Cases() []f1Case {
	f32 := make([]byte, 4)
	binary.BigEndian.PutUint32(f32, math.Float32bits(1.5))
	return []f1Case{
		{"unsigned64in4", entities.Unsigned64, 4, func(ie *entities.InfoElement) entities.InfoElementWithValue {
			return entities.NewUnsigned64InfoElement(ie, 0x0a0b0c0d)
		}, []byte{0x0a, 0x0b, 0x0c, 0x0d}},
		{"unsigned32in2", entities.Unsigned32, 2, func(ie *entities.InfoElement) entities.InfoElementWithValue {
			return entities.NewUnsigned32InfoElement(ie, 443)
		}, []byte{0x01, 0xbb}},
		{"unsigned16in1", entities.Unsigned16, 1, func(ie *entities.InfoElement) entities.InfoElementWithValue {
			return entities.NewUnsigned16InfoElement(ie, 6)
		}, []byte{0x06}},
		{"signed32in2", entities.Signed32, 2, func(ie *entities.InfoElement) entities.InfoElementWithValue {
			return entities.NewSigned32InfoElement(ie, -2)
		}, []byte{0xff, 0xfe}},
		{"float64in4", entities.Float64, 4, func(ie *entities.InfoElement) entities.InfoElementWithValue {
			return entities.NewFloat64InfoElement(ie, 1.5)
		}, f32},
	}
}

func TestFinding1C02_ReducedSizeEncoding(t *testing.T) {
	registry.LoadRegistry()
	const pen = 55555
	if err := registry.InitNewRegistry(pen); err != nil {
		t.Fatal(err)
	}
	portIE, err := registry.GetInfoElement("sourceTransportPort", registry.IANAEnterpriseID)
	if err != nil {
		t.Fatal(err)
	}
	for i, c := range f1Cases() {
		if err := registry.PutInfoElement(*entities.NewInfoElement(c.name, uint16(100+i), c.typ, pen, c.len), pen); err != nil {
			t.Fatalf("PutInfoElement(%s): %v", c.name, err)
		}
		ie, err := registry.GetInfoElement(c.name, pen)
		if err != nil {
			t.Fatal(err)
		}
		for _, pos := range []string{"followedByAnotherField", "lastField"} {
			c, pos := c, pos
			t.Run(c.name+"/"+pos, func(t *testing.T) {
				p := f1NewPeer(t)
				defer p.ln.Close()
				exp := f1NewExporter(t, p)
				defer exp.CloseConnToCollector()
				ies := []*entities.InfoElement{ie, portIE}
				elems := []entities.InfoElementWithValue{c.mk(ie), entities.NewUnsigned16InfoElement(portIE, 8080)}
				idx := 0
				if pos == "lastField" {
					ies[0], ies[1] = ies[1], ies[0]
					elems[0], elems[1] = elems[1], elems[0]
					idx = 1
				}
				tid := exp.NewTemplateID()
				fields, err := f1SendTemplate(t, exp, p, tid, ies)
				if err != nil {
					t.Fatal(err)
				}
				if fields[idx].len != c.len || fields[idx].pen != pen {
					t.Fatalf("template announces %+v for %s", fields[idx], c.name)
				}
				refused, panicked := f1Send(exp, tid, elems)
				if panicked != nil {
					t.Fatalf("SendSet panicked instead of sending or refusing the record: %v", panicked)
				}
				if refused != nil {
					t.Logf("refused (acceptable): %v", refused)
					return
				}
				msg := p.next(t)
				setID, body, err := f1Envelope(msg)
				if err != nil || setID != tid {
					t.Fatalf("data message % x: set id %d, %v", msg, setID, err)
				}
				recs, err := f1ParseData(body, fields)
				if err != nil || len(recs) != 1 {
					t.Fatalf("data set % x: %d records, %v", body, len(recs), err)
				}
				if !bytes.Equal(recs[0][idx], c.want) {
					t.Errorf("data set % x: field %s is % x at the template's width %d, want % x", body, c.name, recs[0][idx], c.len, c.want)
				}
				if got := binary.BigEndian.Uint16(recs[0][1-idx]); got != 8080 {
					t.Errorf("data set % x: neighbouring sourceTransportPort is %d, want 8080", body, got)
				}
			})
		}
	}
}

// f1Send adds one record and sends it; a panic is reported instead of killing the test binary.
func f1Send(exp *exporter.ExportingProcess, tid uint16, elems []entities.InfoElementWithValue) (refused error, panicked interface{}) {
	defer func() {
		if r := recover(); r != nil {
			panicked = r
		}
	}()
	dset := entities.NewSet(false)
	if err := dset.PrepareSet(entities.Data, tid); err != nil {
		return err, nil
	}
	if err := dset.AddRecord(elems, tid); err != nil {
		return err, nil
	}
	if _, err := exp.SendSet(dset); err != nil {
		return err, nil
	}
	return nil, nil
}
