// Finding 3 (property C14, CLEAN tree): one template that names an element of a data type
// the library cannot build a value for (dateTimeMicroseconds / dateTimeNanoseconds - e.g.
// the shipped IANA elements flowStartMicroseconds 154 ... observationTimeNanoseconds 325 -
// or basicList / subTemplateList / subTemplateMultiList 291-293) is accepted and sent by
// SendSet, but one refresh interval later the background goroutine cannot rebuild it
// (entities.MakeTemplateSet -> DecodeAndCreateInfoElementWithValue(ie, nil) returns "API does
// not support micro and nano seconds types yet"), treats that as a transport failure and
// CLOSES THE WHOLE EXPORTING PROCESS: no template (not even the other, ordinary ones) is
// ever retransmitted, and every later SendSet fails with "use of closed network connection".
//
// Place:   copy to WT/pkg/exporter/finding3_test.go
// Command: cd WT && go test -count=1 -timeout 60s -run 'TestFinding3_RefreshKillsExporter' ./pkg/exporter
//
// Clause violated: "over UDP every template sent so far is retransmitted each refresh
// interval as well-formed messages" (none is; the process's own background work ends the
// session although the socket and the collector are fine).
//
// Why the input is legitimate: the elements are in the registry the library ships
// (registry.GetInfoElement("flowStartMicroseconds", 0) succeeds); a template record only
// carries (id, length, enterprise number), no value, so nothing about it needs an encoder:
// set.AddRecord / AddRecordV2 accept it (the element object is made with one of the public
// typed constructors, here NewUnsigned64InfoElement, or is an application-defined
// implementation of InfoElementWithValue), SendSet accepts it and the collector receives a
// correct template message. A mediator that re-exports templates it received, or an
// application that announces its whole schema at start-up, does exactly this. The template
// was "sent so far"; the library then fails on it by itself, a full interval later, on a
// goroutine the application cannot observe.
package exporter

import (
	"encoding/binary"
	"net"
	"testing"
	"time"

	"github.com/vmware/go-ipfix/pkg/entities"
	"github.com/vmware/go-ipfix/pkg/registry"
)

func TestFinding3_RefreshKillsExporter(t *testing.T) {
	registry.LoadRegistry()
	addr, _ := net.ResolveUDPAddr("udp", "127.0.0.1:0")
	server, err := net.ListenUDP("udp", addr)
	if err != nil {
		t.Fatal(err)
	}
	defer server.Close()
	msgs := make(chan []byte, 100)
	go func() {
		for {
			b := make([]byte, 65536)
			n, _, err := server.ReadFromUDP(b)
			if err != nil {
				close(msgs)
				return
			}
			msgs <- b[:n]
		}
	}()

	ep, err := InitExportingProcess(ExporterInput{
		CollectorAddress:    server.LocalAddr().String(),
		CollectorProtocol:   "udp",
		ObservationDomainID: 1,
		TempRefTimeout:      1,
	})
	if err != nil {
		t.Fatal(err)
	}
	defer ep.CloseConnToCollector()

	get := func(name string) *entities.InfoElement {
		ie, err := registry.GetInfoElement(name, registry.IANAEnterpriseID)
		if err != nil {
			t.Fatal(err)
		}
		return ie
	}
	sendTemplate := func(elems ...entities.InfoElementWithValue) (uint16, error) {
		id := ep.NewTemplateID()
		set := entities.NewSet(false)
		if err := set.PrepareSet(entities.Template, id); err != nil {
			t.Fatal(err)
		}
		if err := set.AddRecord(elems, id); err != nil {
			t.Fatalf("AddRecord refused the template: %v", err)
		}
		_, err := ep.SendSet(set)
		return id, err
	}

	// An ordinary template, and one which also names flowStartMicroseconds.
	plainID, err := sendTemplate(
		entities.NewIPAddressInfoElement(get("sourceIPv4Address"), nil),
		entities.NewUnsigned64InfoElement(get("octetDeltaCount"), 0))
	if err != nil {
		t.Fatal(err)
	}
	microID, err := sendTemplate(
		entities.NewIPAddressInfoElement(get("sourceIPv4Address"), nil),
		entities.NewUnsigned64InfoElement(get("flowStartMicroseconds"), 0))
	if err != nil {
		t.Fatalf("the library refused the template (then this finding does not apply): %v", err)
	}
	for i := 0; i < 2; i++ {
		select {
		case m := <-msgs:
			if binary.BigEndian.Uint16(m[16:18]) != entities.TemplateSetID {
				t.Fatalf("unexpected message % x", m)
			}
		case <-time.After(time.Second):
			t.Fatal("the templates did not arrive")
		}
	}

	// Two and a half refresh intervals: both templates must have been retransmitted.
	seen := map[uint16]int{}
	timeout := time.After(2500 * time.Millisecond)
loop:
	for {
		select {
		case m, ok := <-msgs:
			if !ok {
				break loop
			}
			seen[binary.BigEndian.Uint16(m[20:22])]++
		case <-timeout:
			break loop
		}
	}
	if seen[plainID] == 0 || seen[microID] == 0 {
		t.Errorf("retransmissions within 2.5 refresh intervals: template %d (plain): %d, template %d (with flowStartMicroseconds): %d; want at least 1 each",
			plainID, seen[plainID], microID, seen[microID])
	}
	// The application's next, unrelated send.
	if _, err := sendTemplate(entities.NewIPAddressInfoElement(get("destinationIPv4Address"), nil)); err != nil {
		t.Errorf("the exporting process closed itself on the refresh tick; the application's next SendSet fails: %v", err)
	}
}
