// Finding 4 for property C17 (CLEAN tree): in keep mode the unknown fields (and everything else) of
// data records are lost - silently, or with the connection closed - whenever the exporter packs
// its message the way RFC 7011 allows and most real exporters do:
//   (a) a Template Set and the Data Set that uses it in ONE message (what softflowd, pmacct, nProbe,
//       YAF and most routers send as their first packet): decodePacket decodes the first set only,
//       returns no error, and the data set is never delivered;
//   (b) a Template Set with TWO template records (RFC 7011, 3.3.1 / figure H): only the first
//       record is stored; the second template (the one with the unknown element) is ignored
//       without an error, and the data that follows for it is refused ("template 301 does not
//       exist"), which over TCP closes the connection.
//
// Place:   copy to WT/pkg/collector/finding4_test.go (package collector, in-package: uses decodePacket)
// Run:     cd WT && go test -count=1 -run 'TestFinding4KeepModeOtherMessageLayouts' ./pkg/collector
//
// Clause: "keep mode delivers each unknown field as an octet array holding exactly the bytes
// received (fixed or variable length)" - the property quantifies over all templates and values,
// not over one particular way of cutting them into sets and messages. (The same input in drop
// mode loses the known fields as well: "drop mode omits exactly the unknown fields".)
//
// Each message below is well-formed and is accepted (err == nil) by the collecting process.
package collector

import (
	"bytes"
	"encoding/binary"
	"testing"

	"github.com/vmware/go-ipfix/pkg/entities"
	"github.com/vmware/go-ipfix/pkg/registry"
)

func f4Set(setID uint16, body []byte) []byte {
	s := make([]byte, 4, 4+len(body))
	binary.BigEndian.PutUint16(s[0:], setID)
	binary.BigEndian.PutUint16(s[2:], uint16(4+len(body)))
	return append(s, body...)
}

func f4Msg(obsDomain uint32, sets ...[]byte) []byte {
	msg := make([]byte, 16)
	for _, s := range sets {
		msg = append(msg, s...)
	}
	binary.BigEndian.PutUint16(msg[0:], 10)
	binary.BigEndian.PutUint16(msg[2:], uint16(len(msg)))
	binary.BigEndian.PutUint32(msg[4:], 1700000000)
	binary.BigEndian.PutUint32(msg[12:], obsDomain)
	return msg
}

func TestFinding4KeepModeOtherMessageLayouts(t *testing.T) {
	registry.LoadRegistry()
	// template 300 = { sourceIPv4Address, enterprise 55555/7 (3 bytes), destinationTransportPort }
	tmpl300 := []byte{1, 44, 0, 3, 0, 8, 0, 4, 0x80, 7, 0, 3, 0, 0, 0xD9, 0x03, 0, 11, 0, 2}
	// template 301 = the same layout under another id
	tmpl301 := append([]byte{1, 45}, tmpl300[2:]...)
	// template 299 = { sourceIPv4Address }
	tmpl299 := []byte{1, 43, 0, 1, 0, 8, 0, 4}
	rec := []byte{10, 1, 2, 3, 0xA1, 0xA2, 0xA3, 0xBE, 0xEF, 0, 0, 0} // 9 bytes + padding to 4

	newCP := func(t *testing.T) *CollectingProcess {
		cp, err := InitCollectingProcess(CollectorInput{Address: "127.0.0.1:0", Protocol: "tcp", MaxBufferSize: 65535, DecodingMode: DecodingModeLenientKeepUnknown})
		if err != nil {
			t.Fatal(err)
		}
		go func() {
			for range cp.GetMsgChan() {
			}
		}()
		t.Cleanup(cp.CloseMsgChan)
		return cp
	}
	// what decodePacket returns is what it has put on the message channel
	unknownBytes := func(msgs []*entities.Message) [][]byte {
		var out [][]byte
		for _, m := range msgs {
			if m.GetSet().GetSetType() != entities.Data {
				continue
			}
			for _, r := range m.GetSet().GetRecords() {
				for _, e := range r.GetOrderedElementList() {
					if e.GetInfoElement().EnterpriseId == 55555 {
						out = append(out, e.GetOctetArrayValue())
					}
				}
			}
		}
		return out
	}

	t.Run("template set and data set in one message", func(t *testing.T) {
		cp := newCP(t)
		m, err := cp.decodePacket(bytes.NewBuffer(f4Msg(1, f4Set(2, tmpl300), f4Set(300, rec))), "10.0.0.1:4739")
		if err != nil {
			t.Fatalf("message refused: %v", err)
		}
		if cp.GetNumRecordsReceived() != 1 {
			t.Fatalf("%d messages delivered, want 1", cp.GetNumRecordsReceived())
		}
		if u := unknownBytes([]*entities.Message{m}); len(u) != 1 || !bytes.Equal(u[0], []byte{0xA1, 0xA2, 0xA3}) {
			t.Errorf("message accepted without error, but the unknown field A1 A2 A3 of its data set was not delivered (the one delivered message holds a set of type %d with %d record(s); unknown fields delivered: %v)", m.GetSet().GetSetType(), m.GetSet().GetNumberOfRecords(), u)
		}
	})

	t.Run("two template records in one template set", func(t *testing.T) {
		cp := newCP(t)
		if _, err := cp.decodePacket(bytes.NewBuffer(f4Msg(1, f4Set(2, append(append([]byte{}, tmpl299...), tmpl301...)))), "10.0.0.1:4739"); err != nil {
			t.Fatalf("template message refused: %v", err)
		}
		m, err := cp.decodePacket(bytes.NewBuffer(f4Msg(1, f4Set(301, rec))), "10.0.0.1:4739")
		if err != nil {
			t.Fatalf("data for the second template of the accepted template set refused, unknown field A1 A2 A3 not delivered: %v", err)
		}
		if u := unknownBytes([]*entities.Message{m}); len(u) != 1 || !bytes.Equal(u[0], []byte{0xA1, 0xA2, 0xA3}) {
			t.Errorf("the unknown field A1 A2 A3 was not delivered (delivered: %v)", u)
		}
	})
}
