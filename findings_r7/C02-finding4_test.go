// Finding 4 for property C02 on the CLEAN tree: element identifiers with the top bit set.
//
// Place:   cp OUT/finding4_test.go WT/pkg/exporter/finding4_test.go
// Run:     cd WT && go test -count=1 -timeout 120s -run 'TestFinding4C02' ./pkg/exporter
//
// Clause violated: "one field specifier per element with the enterprise bit and 4-byte
// enterprise number present exactly for enterprise-specific elements".
// Input: an element registered in the IANA registry (enterprise number 0) under an identifier of
// 32768 or more, here 40000. InfoElement.ElementId is a full uint16 and neither
// entities.NewInfoElement, registry.PutInfoElement, the template set nor SendSet object, although
// IPFIX element identifiers have 15 bits. The field specifier is written as 9c 40 00 04: the top
// bit of the identifier lands in the enterprise bit, but no enterprise number follows (the
// element is not enterprise-specific). An independent decoder takes the next specifier for the
// enterprise number and then runs out of octets: the template record is malformed and every
// later data set of that template is undecodable.
// (Lower priority than findings 1-3: the input is an application mistake, but one the library
// accepts silently at four places and turns into a malformed message.)
// Expected: a refusal at registration, when the record is built or in SendSet.
package exporter_test

import (
	"encoding/binary"
	"fmt"
	"io"
	"net"
	"testing"
	"time"

	"github.com/vmware/go-ipfix/pkg/entities"
	"github.com/vmware/go-ipfix/pkg/exporter"
	"github.com/vmware/go-ipfix/pkg/registry"
)

type f4Field struct {
	id  uint16
	len uint16
	pen uint32
}

// f4Peer is a tcp peer that hands over whole messages as framed by the header length.
type f4Peer struct {
	ln   net.Listener
	msgs chan []byte
}

func f4NewPeer(t *testing.T) *f4Peer {
	ln, err := net.Listen("tcp", "127.0.0.1:0")
	if err != nil {
		t.Fatal(err)
	}
	p := &f4Peer{ln: ln, msgs: make(chan []byte, 64)}
	go func() {
		c, err := ln.Accept()
		if err != nil {
			return
		}
		defer c.Close()
		for {
			hdr := make([]byte, 16)
			if _, err := io.ReadFull(c, hdr); err != nil {
				return
			}
			l := int(binary.BigEndian.Uint16(hdr[2:4]))
			if l < 16 {
				p.msgs <- hdr
				return
			}
			rest := make([]byte, l-16)
			if _, err := io.ReadFull(c, rest); err != nil {
				return
			}
			p.msgs <- append(hdr, rest...)
		}
	}()
	return p
}

func (p *f4Peer) next(t *testing.T) []byte {
	t.Helper()
	select {
	case m := <-p.msgs:
		return m
	case <-time.After(5 * time.Second):
		t.Fatalf("no message arrived at the peer")
	}
	return nil
}

// f4Envelope checks the message header and the single set; returns set id and set body.
func f4Envelope(msg []byte) (uint16, []byte, error) {
	if len(msg) < 20 {
		return 0, nil, fmt.Errorf("message of %d bytes", len(msg))
	}
	if v := binary.BigEndian.Uint16(msg[0:2]); v != 10 {
		return 0, nil, fmt.Errorf("version %d", v)
	}
	if l := int(binary.BigEndian.Uint16(msg[2:4])); l != len(msg) {
		return 0, nil, fmt.Errorf("header length %d, %d bytes sent", l, len(msg))
	}
	setID := binary.BigEndian.Uint16(msg[16:18])
	if l := int(binary.BigEndian.Uint16(msg[18:20])); l != len(msg)-16 {
		return 0, nil, fmt.Errorf("set length %d does not cover the %d remaining bytes", l, len(msg)-16)
	}
	return setID, msg[20:], nil
}

// f4ParseTemplate decodes one template record that must fill the whole set body.
func f4ParseTemplate(body []byte) (uint16, []f4Field, error) {
	if len(body) < 4 {
		return 0, nil, fmt.Errorf("short template record")
	}
	id := binary.BigEndian.Uint16(body[0:2])
	n := int(binary.BigEndian.Uint16(body[2:4]))
	off := 4
	fields := make([]f4Field, 0, n)
	for i := 0; i < n; i++ {
		if off+4 > len(body) {
			return 0, nil, fmt.Errorf("template record truncated in field specifier %d", i)
		}
		f := f4Field{id: binary.BigEndian.Uint16(body[off:]), len: binary.BigEndian.Uint16(body[off+2:])}
		off += 4
		if f.id&0x8000 != 0 {
			if off+4 > len(body) {
				return 0, nil, fmt.Errorf("template record truncated in the enterprise number of field specifier %d", i)
			}
			f.id &= 0x7fff
			f.pen = binary.BigEndian.Uint32(body[off:])
			off += 4
		}
		fields = append(fields, f)
	}
	if off != len(body) {
		return 0, nil, fmt.Errorf("%d stray bytes after the template record", len(body)-off)
	}
	return id, fields, nil
}

// f4ParseData walks the set body with the template; returns the raw field values per record.
func f4ParseData(body []byte, fields []f4Field) ([][][]byte, error) {
	var recs [][][]byte
	off := 0
	for off < len(body) {
		var rec [][]byte
		for i, f := range fields {
			l := int(f.len)
			if f.len == 65535 {
				if off+1 > len(body) {
					return recs, fmt.Errorf("record %d field %d: no room for the length prefix", len(recs), i)
				}
				l = int(body[off])
				off++
				if l == 255 {
					if off+2 > len(body) {
						return recs, fmt.Errorf("record %d field %d: no room for the long length prefix", len(recs), i)
					}
					l = int(binary.BigEndian.Uint16(body[off:]))
					off += 2
				}
			}
			if off+l > len(body) {
				return recs, fmt.Errorf("record %d field %d: %d bytes announced, %d left in the set", len(recs), i, l, len(body)-off)
			}
			rec = append(rec, body[off:off+l])
			off += l
		}
		recs = append(recs, rec)
	}
	return recs, nil
}

func f4NewExporter(t *testing.T, p *f4Peer) *exporter.ExportingProcess {
	t.Helper()
	exp, err := exporter.InitExportingProcess(exporter.ExporterInput{
		CollectorAddress: p.ln.Addr().String(), CollectorProtocol: "tcp", ObservationDomainID: 7,
	})
	if err != nil {
		t.Fatal(err)
	}
	return exp
}

// f4SendTemplate sends a template through the public API and returns the field specifiers an
// independent decoder reads from the wire.
func f4SendTemplate(t *testing.T, exp *exporter.ExportingProcess, p *f4Peer, tid uint16, ies []*entities.InfoElement) ([]f4Field, error) {
	t.Helper()
	tset, err := entities.MakeTemplateSet(tid, ies)
	if err != nil {
		t.Fatalf("MakeTemplateSet: %v", err)
	}
	if _, err := exp.SendSet(tset); err != nil {
		t.Fatalf("SendSet(template): %v", err)
	}
	msg := p.next(t)
	setID, body, err := f4Envelope(msg)
	if err != nil {
		return nil, fmt.Errorf("template message % x: %v", msg, err)
	}
	if setID != 2 {
		return nil, fmt.Errorf("template message % x: set id %d", msg, setID)
	}
	gotID, fields, err := f4ParseTemplate(body)
	if err != nil {
		return nil, fmt.Errorf("template set % x: %v", body, err)
	}
	if gotID != tid || len(fields) != len(ies) {
		return nil, fmt.Errorf("template set % x: id %d with %d fields, want id %d with %d fields", body, gotID, len(fields), tid, len(ies))
	}
	return fields, nil
}

func TestFinding4C02_ElementIDWithTopBit(t *testing.T) {
	registry.LoadRegistry()
	if err := registry.PutInfoElement(*entities.NewInfoElement("myCounter", 40000, entities.Unsigned32, registry.IANAEnterpriseID, 4), registry.IANAEnterpriseID); err != nil {
		t.Logf("refused (acceptable): %v", err)
		return
	}
	ie, err := registry.GetInfoElement("myCounter", registry.IANAEnterpriseID)
	if err != nil {
		t.Fatal(err)
	}
	portIE, err := registry.GetInfoElement("sourceTransportPort", registry.IANAEnterpriseID)
	if err != nil {
		t.Fatal(err)
	}
	p := f4NewPeer(t)
	defer p.ln.Close()
	exp := f4NewExporter(t, p)
	defer exp.CloseConnToCollector()
	tid := exp.NewTemplateID()
	tset, err := entities.MakeTemplateSet(tid, []*entities.InfoElement{ie, portIE})
	if err != nil {
		t.Logf("refused (acceptable): %v", err)
		return
	}
	if _, err := exp.SendSet(tset); err != nil {
		t.Logf("refused (acceptable): %v", err)
		return
	}
	msg := p.next(t)
	setID, body, err := f4Envelope(msg)
	if err != nil || setID != 2 {
		t.Fatalf("template message % x: set id %d, %v", msg, setID, err)
	}
	gotID, fields, err := f4ParseTemplate(body)
	if err != nil {
		t.Fatalf("template set % x is malformed: %v", body, err)
	}
	if gotID != tid || len(fields) != 2 || fields[0].pen != 0 || fields[1] != (f4Field{id: 7, len: 2}) {
		t.Fatalf("template set % x decodes to id %d fields %+v", body, gotID, fields)
	}
}
