// Finding 1 for property C11, on the CLEAN tree: an undecodable (or merely different) template on
// one TCP connection destroys (or changes) the template of ANOTHER connection, whose next valid
// message is then refused and whose connection is closed (or whose records are decoded with the
// wrong layout).
//
// Place:   copy to WT/pkg/collector/finding1_test.go
// Run:     cd WT && go test -count=1 -timeout 120s -run 'TestFinding1C11' ./pkg/collector
//
// Clauses of C11: "After the first undecodable message the connection is closed and nothing
// further from that stream is delivered, WHILE OTHER CONNECTIONS ARE UNAFFECTED", and for the
// healthy connection "the collector delivers exactly the sequence of messages the byte stream
// contains".
//
// Why the input is legitimate: RFC 7011 (sections 3.4.1, 8 and 8.1) scopes template ids to the
// Transport Session AND the observation domain; two exporters are free to use the same
// observation domain id (0 and 1 are what most exporters are configured with) and both start
// numbering their templates at 256. Every message below is well formed and accepted on its own.
// The bad exporter B is simply one whose template names an enterprise element the collector
// does not know - in the default (Strict) decoding mode that is an undecodable message and B's
// connection is rightly closed. But collector/process.go keeps templates in a table keyed by
// (observation domain, template id) only, and decodeTemplateSet deletes the entry on a decode
// error (cp.deleteTemplate), so exporter A, which did nothing wrong, loses its template: its
// next data message is refused ("template 256 ... does not exist") and A's connection is closed.
// In the second test B's template is valid but different, and A's records are silently decoded
// with B's layout.
package collector

import (
	"encoding/binary"
	"io"
	"net"
	"sync"
	"testing"
	"time"

	"github.com/vmware/go-ipfix/pkg/entities"
	"github.com/vmware/go-ipfix/pkg/registry"
)

func finding1Msg(seq uint32, setID uint16, body []byte) []byte {
	total := 16 + 4 + len(body)
	b := make([]byte, 20, total)
	binary.BigEndian.PutUint16(b[0:], 10)
	binary.BigEndian.PutUint16(b[2:], uint16(total))
	binary.BigEndian.PutUint32(b[4:], 1700000000)
	binary.BigEndian.PutUint32(b[8:], seq)
	binary.BigEndian.PutUint32(b[12:], 1) // observation domain 1 on both exporters
	binary.BigEndian.PutUint16(b[16:], setID)
	binary.BigEndian.PutUint16(b[18:], uint16(4+len(body)))
	return append(b, body...)
}

type finding1Collector struct {
	cp    *CollectingProcess
	mu    sync.Mutex
	msgs  []*entities.Message
	drain chan struct{}
}

func finding1Start(t *testing.T) *finding1Collector {
	registry.LoadRegistry()
	cp, err := InitCollectingProcess(CollectorInput{Address: "127.0.0.1:0", Protocol: "tcp"})
	if err != nil {
		t.Fatal(err)
	}
	go cp.Start()
	for i := 0; cp.GetAddress() == nil; i++ {
		if i > 500 {
			t.Fatal("collector did not start")
		}
		time.Sleep(10 * time.Millisecond)
	}
	c := &finding1Collector{cp: cp, drain: make(chan struct{})}
	go func() {
		defer close(c.drain)
		for m := range cp.GetMsgChan() {
			c.mu.Lock()
			c.msgs = append(c.msgs, m)
			c.mu.Unlock()
		}
	}()
	return c
}

func (c *finding1Collector) stop() {
	c.cp.Stop()
	c.cp.CloseMsgChan()
	<-c.drain
}

func (c *finding1Collector) waitDelivered(n int) bool {
	for i := 0; i < 300; i++ {
		c.mu.Lock()
		got := len(c.msgs)
		c.mu.Unlock()
		if got >= n {
			return true
		}
		time.Sleep(10 * time.Millisecond)
	}
	return false
}

// isClosed reports whether the peer closed the connection (EOF or reset) within the wait.
func finding1IsClosed(conn net.Conn, wait time.Duration) bool {
	conn.SetReadDeadline(time.Now().Add(wait))
	_, err := conn.Read(make([]byte, 1))
	if err == nil {
		return false
	}
	if err == io.EOF {
		return true
	}
	if ne, ok := err.(net.Error); ok && ne.Timeout() {
		return false
	}
	return true
}

// An undecodable template on connection B must not affect connection A.
func TestFinding1C11_UndecodableTemplateOnOtherConnection(t *testing.T) {
	c := finding1Start(t)
	defer c.stop()
	addr := c.cp.GetAddress().String()

	// Exporter A: template 256 = sourceIPv4Address(8)[4], destinationIPv4Address(12)[4]
	connA, err := net.Dial("tcp", addr)
	if err != nil {
		t.Fatal(err)
	}
	defer connA.Close()
	connA.Write(finding1Msg(0, 2, []byte{1, 0, 0, 2, 0, 8, 0, 4, 0, 12, 0, 4}))
	connA.Write(finding1Msg(0, 256, []byte{10, 0, 0, 1, 10, 0, 0, 2}))
	if !c.waitDelivered(2) {
		t.Fatal("set-up: A's template and first data message were not delivered")
	}

	// Exporter B: its template 256 names element 1 of enterprise 9999, which the collector does
	// not know: undecodable in the default Strict mode. B's connection is closed - correct.
	connB, err := net.Dial("tcp", addr)
	if err != nil {
		t.Fatal(err)
	}
	defer connB.Close()
	connB.Write(finding1Msg(0, 2, []byte{1, 0, 0, 1, 0x80, 1, 0, 4, 0, 0, 0x27, 0x0f}))
	if !finding1IsClosed(connB, 3*time.Second) {
		t.Fatal("set-up: B's connection was not closed after its undecodable template")
	}

	// Exporter A carries on with a perfectly valid data message.
	connA.Write(finding1Msg(1, 256, []byte{10, 0, 0, 3, 10, 0, 0, 4}))
	delivered := c.waitDelivered(3)
	closedA := finding1IsClosed(connA, 500*time.Millisecond)
	if !delivered {
		t.Errorf("A's second data message was not delivered: connection A was affected by the undecodable message on connection B")
	}
	if closedA {
		t.Errorf("connection A was closed by the collector although every message of its stream is valid")
	}
}

// A valid but different template 256 on connection B must not change how A's records are read.
func TestFinding1C11_OtherConnectionRedefinesTemplate(t *testing.T) {
	c := finding1Start(t)
	defer c.stop()
	addr := c.cp.GetAddress().String()

	connA, err := net.Dial("tcp", addr)
	if err != nil {
		t.Fatal(err)
	}
	defer connA.Close()
	connA.Write(finding1Msg(0, 2, []byte{1, 0, 0, 2, 0, 8, 0, 4, 0, 12, 0, 4}))
	if !c.waitDelivered(1) {
		t.Fatal("set-up: A's template was not delivered")
	}

	// Exporter B, same observation domain, its own template 256 = octetDeltaCount(1)[8], packetDeltaCount(2)[8]
	connB, err := net.Dial("tcp", addr)
	if err != nil {
		t.Fatal(err)
	}
	defer connB.Close()
	connB.Write(finding1Msg(0, 2, []byte{1, 0, 0, 2, 0, 1, 0, 8, 0, 2, 0, 8}))
	if !c.waitDelivered(2) {
		t.Fatal("set-up: B's template was not delivered")
	}

	// A sends two records of its own layout (2 x 8 bytes).
	connA.Write(finding1Msg(0, 256, []byte{10, 0, 0, 1, 10, 0, 0, 2, 10, 0, 0, 3, 10, 0, 0, 4}))
	if !c.waitDelivered(3) {
		t.Fatalf("A's data message was not delivered (connection A closed: %v)", finding1IsClosed(connA, 500*time.Millisecond))
	}
	c.mu.Lock()
	m := c.msgs[2]
	c.mu.Unlock()
	recs := m.GetSet().GetRecords()
	if len(recs) != 2 {
		t.Fatalf("A's message holds 2 records, the collector delivered %d", len(recs))
	}
	src, _, ok := recs[0].GetInfoElementWithValue("sourceIPv4Address")
	if !ok {
		var names []string
		for _, e := range recs[0].GetOrderedElementList() {
			names = append(names, e.GetName())
		}
		t.Fatalf("A's record was decoded with another connection's template: fields %v", names)
	}
	if !src.GetIPAddressValue().Equal(net.IPv4(10, 0, 0, 1)) {
		t.Errorf("sourceIPv4Address = %v, want 10.0.0.1", src.GetIPAddressValue())
	}
}
