// FINDING 1 (property C15) - clean tree.
//
// Place at:  WT/pkg/collector/finding1_test.go
// Run with:  cd WT && go test -count=1 -timeout 60s -run 'TestFinding1' ./pkg/collector
//
// Clause violated: "the reported length, the bytes written and the decoder's consumption
// always agree" (and "decoding those bytes yields the same value"), for the fixed-length form
// of strings / octet arrays that the quantifier names ("fixed- and variable-length octet
// arrays").
//
// What happens: when the collector decodes a template it looks every field up in the registry
// and, for a field it finds there, throws away the field length announced by the template:
// the data records are then read with the length of the REGISTRY entry (65535 = variable
// length for every string and octet array of the shipped registries). An exporting
// application is free to declare such an element with a fixed length -
// entities.NewInfoElement("interfaceName", 82, entities.String, 0, 16), or paddingOctets
// (210), which RFC 7011 section 3.3.1 only allows with a fixed length - because the length is
// a property of the template field, not of the element (RFC 7011 sections 3.2 and 7); it is
// also the usual layout of router exporters. The go-ipfix exporter accepts every step: the
// template goes out with the fixed length, the element reports GetLength() == that length,
// the record buffer carries exactly that many raw bytes. The collector, however, consumes the
// field as a variable-length one and takes the first value byte for a length prefix.
// Depending on the content the application receives silently wrong values (also in the fields
// and records that follow), or the message is refused and the TCP connection closed.
//
// The last sub-test shows the same fault for the other legitimate reason why a template length
// differs from the registry's: reduced-size encoding of integers (RFC 7011 section 6.2), which
// the go-ipfix exporter refuses to produce but most router exporters use (octetDeltaCount and
// packetDeltaCount in four bytes). That message is written by hand.
//
// Legitimate: public API only, real exporter and collector over loopback TCP, shipped
// registry, no call returns an error on the exporting side.
package collector

import (
	"bytes"
	"encoding/binary"
	"net"
	"testing"
	"time"

	"github.com/vmware/go-ipfix/pkg/entities"
	"github.com/vmware/go-ipfix/pkg/exporter"
	"github.com/vmware/go-ipfix/pkg/registry"
)

// finding1Exchange sends one template and one data set with the given records from a real
// exporting process to a real collecting process and returns the decoded records.
func finding1Exchange(t *testing.T, ies []*entities.InfoElement, records [][]entities.InfoElementWithValue) []entities.Record {
	cp, err := InitCollectingProcess(CollectorInput{Address: "127.0.0.1:0", Protocol: "tcp", DecodingMode: DecodingModeLenientKeepUnknown})
	if err != nil {
		t.Fatal(err)
	}
	go cp.Start()
	defer cp.Stop()
	deadline := time.Now().Add(5 * time.Second)
	for cp.GetAddress() == nil {
		if time.Now().After(deadline) {
			t.Fatal("collector did not start")
		}
		time.Sleep(5 * time.Millisecond)
	}
	ep, err := exporter.InitExportingProcess(exporter.ExporterInput{
		CollectorAddress:    cp.GetAddress().String(),
		CollectorProtocol:   "tcp",
		ObservationDomainID: 1,
	})
	if err != nil {
		t.Fatal(err)
	}
	defer ep.CloseConnToCollector()

	templateID := ep.NewTemplateID()
	tmplSet, err := entities.MakeTemplateSet(templateID, ies)
	if err != nil {
		t.Fatal(err)
	}
	if _, err := ep.SendSet(tmplSet); err != nil {
		t.Fatalf("template refused by the exporter: %v", err)
	}
	dataSet := entities.NewSet(false)
	if err := dataSet.PrepareSet(entities.Data, templateID); err != nil {
		t.Fatal(err)
	}
	for _, r := range records {
		want := 0
		for i, e := range r {
			if ies[i].Len != entities.VariableLength && e.GetLength() != int(ies[i].Len) {
				t.Fatalf("element %s reports length %d, its template field %d", e.GetName(), e.GetLength(), ies[i].Len)
			}
			want += e.GetLength()
		}
		if err := dataSet.AddRecord(r, templateID); err != nil {
			t.Fatalf("record refused by the exporter: %v", err)
		}
		rec := dataSet.GetRecords()[len(dataSet.GetRecords())-1]
		if rec.GetRecordLength() != want || len(rec.GetBuffer()) != want {
			t.Fatalf("exporter side: record length %d, %d bytes written, elements report %d", rec.GetRecordLength(), len(rec.GetBuffer()), want)
		}
	}
	if _, err := ep.SendSet(dataSet); err != nil {
		t.Fatalf("data set refused by the exporter: %v", err)
	}

	var got []*entities.Message
	timeout := time.After(3 * time.Second)
loop:
	for len(got) < 2 {
		select {
		case m, ok := <-cp.GetMsgChan():
			if !ok {
				break loop
			}
			got = append(got, m)
		case <-timeout:
			break loop
		}
	}
	if len(got) < 2 {
		t.Fatalf("the collector delivered %d of the 2 messages sent: the data message was refused", len(got))
	}
	for i, e := range got[0].GetSet().GetRecords()[0].GetOrderedElementList() {
		if l := e.GetInfoElement().Len; l != ies[i].Len {
			t.Errorf("template field %s: the collector uses length %d, the template announced %d", ies[i].Name, l, ies[i].Len)
		}
	}
	return got[1].GetSet().GetRecords()
}

func TestFinding1FixedLengthFieldOfRegistryElement(t *testing.T) {
	registry.LoadRegistry()
	ifIndex, err := registry.GetInfoElement("ingressInterface", registry.IANAEnterpriseID)
	if err != nil {
		t.Fatal(err)
	}
	proto, err := registry.GetInfoElement("protocolIdentifier", registry.IANAEnterpriseID)
	if err != nil {
		t.Fatal(err)
	}

	// interfaceName (IANA 82, string) as a fixed 16-byte, NUL padded field followed by an
	// unsigned32.
	stringCase := func(name string) func(t *testing.T) {
		return func(t *testing.T) {
			const width = 16
			ifName := entities.NewInfoElement("interfaceName", 82, entities.String, 0, width)
			sent := name + string(bytes.Repeat([]byte{0}, width-len(name)))
			recs := finding1Exchange(t, []*entities.InfoElement{ifName, ifIndex}, [][]entities.InfoElementWithValue{{
				entities.NewStringInfoElement(ifName, sent),
				entities.NewUnsigned32InfoElement(ifIndex, 0x01020304),
			}})
			if len(recs) != 1 {
				t.Fatalf("decoded %d records, sent 1", len(recs))
			}
			elems := recs[0].GetOrderedElementList()
			if v := elems[0].GetStringValue(); v != sent {
				t.Errorf("interfaceName: sent %q, decoded %q", sent, v)
			}
			if v := elems[1].GetUnsigned32Value(); v != 0x01020304 {
				t.Errorf("ingressInterface: sent %#x, decoded %#x", 0x01020304, v)
			}
		}
	}
	// 'g' (103) is taken for a length prefix: the message is refused, the connection closed.
	t.Run("string/printable", stringCase("ge-0/0/1"))
	// A first byte of 11 makes the misreading silent: wrong name, wrong interface index.
	t.Run("string/silent", stringCase("\x0bge-0/0/1"))

	// paddingOctets (IANA 210): three zero octets that align an 5-byte record to 8. Two
	// records in the set. The collector reads each padding field as an empty variable-length
	// value (one byte), so the second record is decoded from two bytes too early: interface
	// 256 / UDP arrives as interface 0 / ICMP, without any error. (With other values the
	// message is refused.)
	t.Run("paddingOctets", func(t *testing.T) {
		padding := entities.NewInfoElement("paddingOctets", 210, entities.OctetArray, 0, 3)
		ies := []*entities.InfoElement{ifIndex, proto, padding}
		mk := func(idx uint32, p uint8) []entities.InfoElementWithValue {
			return []entities.InfoElementWithValue{
				entities.NewUnsigned32InfoElement(ifIndex, idx),
				entities.NewUnsigned8InfoElement(proto, p),
				entities.NewOctetArrayInfoElement(padding, []byte{0, 0, 0}),
			}
		}
		recs := finding1Exchange(t, ies, [][]entities.InfoElementWithValue{mk(1, 6), mk(256, 17)})
		if len(recs) != 2 {
			t.Fatalf("decoded %d records, sent 2", len(recs))
		}
		for i, want := range []struct {
			idx uint32
			p   uint8
		}{{1, 6}, {256, 17}} {
			elems := recs[i].GetOrderedElementList()
			if v := elems[0].GetUnsigned32Value(); v != want.idx {
				t.Errorf("record %d ingressInterface: sent %#x, decoded %#x", i, want.idx, v)
			}
			if v := elems[1].GetUnsigned8Value(); v != want.p {
				t.Errorf("record %d protocolIdentifier: sent %d, decoded %d", i, want.p, v)
			}
			if v := elems[2].GetOctetArrayValue(); !bytes.Equal(v, []byte{0, 0, 0}) {
				t.Errorf("record %d paddingOctets: sent 000000, decoded %x (%d bytes)", i, v, len(v))
			}
		}
	})
	// Reduced-size encoding (RFC 7011 section 6.2) from a foreign exporter: octetDeltaCount
	// and packetDeltaCount in four bytes each, two records. The collector reads eight bytes
	// per counter: one record with two wrong counters is delivered, without any error.
	t.Run("reducedSize", func(t *testing.T) {
		cp, err := InitCollectingProcess(CollectorInput{Address: "127.0.0.1:0", Protocol: "tcp", DecodingMode: DecodingModeLenientKeepUnknown})
		if err != nil {
			t.Fatal(err)
		}
		go cp.Start()
		defer cp.Stop()
		for deadline := time.Now().Add(5 * time.Second); cp.GetAddress() == nil; time.Sleep(5 * time.Millisecond) {
			if time.Now().After(deadline) {
				t.Fatal("collector did not start")
			}
		}
		conn, err := net.Dial("tcp", cp.GetAddress().String())
		if err != nil {
			t.Fatal(err)
		}
		defer conn.Close()
		msg := func(seq uint32, setID uint16, body []byte) []byte {
			b := make([]byte, 20, 20+len(body))
			binary.BigEndian.PutUint16(b[0:], 10)
			binary.BigEndian.PutUint16(b[2:], uint16(20+len(body)))
			binary.BigEndian.PutUint32(b[4:], uint32(time.Now().Unix()))
			binary.BigEndian.PutUint32(b[8:], seq)
			binary.BigEndian.PutUint32(b[12:], 1)
			binary.BigEndian.PutUint16(b[16:], setID)
			binary.BigEndian.PutUint16(b[18:], uint16(4+len(body)))
			return append(b, body...)
		}
		// template 256: octetDeltaCount (1) length 4, packetDeltaCount (2) length 4
		tmpl := msg(0, 2, []byte{1, 0, 0, 2, 0, 1, 0, 4, 0, 2, 0, 4})
		data := msg(0, 256, []byte{0, 0, 0x10, 0, 0, 0, 0, 8, 0, 0, 0x20, 0, 0, 0, 0, 9})
		if _, err := conn.Write(append(tmpl, data...)); err != nil {
			t.Fatal(err)
		}
		var got []*entities.Message
		timeout := time.After(3 * time.Second)
	loop:
		for len(got) < 2 {
			select {
			case m, ok := <-cp.GetMsgChan():
				if !ok {
					break loop
				}
				got = append(got, m)
			case <-timeout:
				break loop
			}
		}
		if len(got) < 2 {
			t.Fatalf("the collector delivered %d of the 2 messages sent", len(got))
		}
		recs := got[1].GetSet().GetRecords()
		if len(recs) != 2 {
			t.Errorf("decoded %d records, the set holds 2", len(recs))
		}
		want := [][2]uint64{{0x1000, 8}, {0x2000, 9}}
		for i, r := range recs {
			el := r.GetOrderedElementList()
			if o, p := el[0].GetUnsigned64Value(), el[1].GetUnsigned64Value(); o != want[i][0] || p != want[i][1] {
				t.Errorf("record %d: sent octetDeltaCount=%#x packetDeltaCount=%#x, decoded %#x and %#x", i, want[i][0], want[i][1], o, p)
			}
		}
	})
}
