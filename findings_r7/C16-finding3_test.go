// Finding 3 for property C16 (CLEAN tree): sets created with NewSet(true)
// ("decoding" sets, the kind the collecting process hands to the application)
// break every clause of the property: their reported length is not 4 + the
// records' lengths, ResetSet does not clear it, and serializing one panics.
//
// Place at:  WT/pkg/exporter/finding3_test.go
// Run with:  cd WT && go test -count=1 -timeout 120s -run 'TestFinding3C16' ./pkg/exporter
//
// Clauses violated:
//  (a) "after a reset a set behaves exactly like a new one": ResetSet only
//      resets the length `if !s.isDecoding`, but a decoding TEMPLATE set does
//      accumulate length (template records report len(buffer) in both modes),
//      so after prepare/add/reset the set reports a stale, ever-growing length
//      while a new set reports 0.
//  (b) "A set's reported length always equals 4 plus the sum of its records'
//      reported lengths": a decoding template set reports 0 + sum (the header
//      is not counted), a decoding data set reports 0.
//  (c) "... and equals the number of bytes that get serialized for it":
//      exporter.CreateIPFIXMsg / ExportingProcess.SendSet on such a set do not
//      return an error, they panic (nil header buffer, message allocated from
//      the wrong length).
//
// Why the input is legitimate: NewSet(true), PrepareSet, AddRecord*, ResetSet
// and GetSetLength are the same public operations on the same public type; the
// collecting process builds exactly these sets and delivers them as
// entities.Set through Message.GetSet(), and the obvious way to relay what a
// collector received (an IPFIX mediator / proxy) is ep.SendSet(msg.GetSet()):
// it type-checks, SendSet documents no restriction, and the process dies.
// TestFinding3C16_Relay does this with a real collector and a real exporter.
// FAILS on the clean tree (all three tests).
package exporter_test

import (
	"io"
	"net"
	"testing"
	"time"

	"github.com/vmware/go-ipfix/pkg/collector"
	"github.com/vmware/go-ipfix/pkg/entities"
	"github.com/vmware/go-ipfix/pkg/exporter"
	"github.com/vmware/go-ipfix/pkg/registry"
)

func f3TemplateElements(t *testing.T) []entities.InfoElementWithValue {
	ie1 := entities.NewInfoElement("sourceTransportPort", 7, entities.Unsigned16, 0, 2)
	ie2 := entities.NewInfoElement("sourceIPv4Address", 8, entities.Ipv4Address, 0, 4)
	var out []entities.InfoElementWithValue
	for _, ie := range []*entities.InfoElement{ie1, ie2} {
		e, err := entities.DecodeAndCreateInfoElementWithValue(ie, nil)
		if err != nil {
			t.Fatal(err)
		}
		out = append(out, e)
	}
	return out
}

// (a) and (b): history on one decoding set against a fresh one.
func TestFinding3C16_Reset(t *testing.T) {
	reused := entities.NewSet(true)
	for round := 1; round <= 3; round++ {
		fresh := entities.NewSet(true)
		if got, want := reused.GetSetLength(), fresh.GetSetLength(); got != want {
			t.Errorf("round %d: after ResetSet the set reports length %d, a new set reports %d", round, got, want)
		}
		for _, s := range []entities.Set{reused, fresh} {
			if err := s.PrepareSet(entities.Template, 256); err != nil {
				t.Fatal(err)
			}
			if err := s.AddRecordV2(f3TemplateElements(t), 256); err != nil {
				t.Fatal(err)
			}
		}
		if got, want := reused.GetSetLength(), fresh.GetSetLength(); got != want {
			t.Errorf("round %d: same operations since the reset, reused set reports length %d, fresh set %d", round, got, want)
		}
		sum := entities.SetHeaderLen
		for _, r := range fresh.GetRecords() {
			sum += r.GetRecordLength()
		}
		if fresh.GetSetLength() != sum {
			t.Errorf("round %d: fresh set reports length %d, 4 + sum of its records' reported lengths is %d", round, fresh.GetSetLength(), sum)
		}
		reused.ResetSet()
	}
}

// (c) serializing a decoding set panics instead of failing with an error.
func TestFinding3C16_Serialize(t *testing.T) {
	s := entities.NewSet(true)
	if err := s.PrepareSet(entities.Template, 256); err != nil {
		t.Fatal(err)
	}
	if err := s.AddRecordV2(f3TemplateElements(t), 256); err != nil {
		t.Fatal(err)
	}
	var msg []byte
	var err error
	p := func() (p interface{}) {
		defer func() { p = recover() }()
		msg, err = exporter.CreateIPFIXMsg(s, 1, 0, time.Unix(1700000000, 0))
		return nil
	}()
	if p != nil {
		t.Fatalf("CreateIPFIXMsg panicked (set reports length %d): %v", s.GetSetLength(), p)
	}
	if err == nil && len(msg)-entities.MsgHeaderLength != s.GetSetLength() {
		t.Fatalf("%d bytes serialized, set reports %d", len(msg)-entities.MsgHeaderLength, s.GetSetLength())
	}
}

// The realistic origin: relay the sets a collector delivers.
func TestFinding3C16_Relay(t *testing.T) {
	registry.LoadRegistry()
	cp, err := collector.InitCollectingProcess(collector.CollectorInput{Address: "127.0.0.1:0", Protocol: "tcp"})
	if err != nil {
		t.Fatal(err)
	}
	go cp.Start()
	defer func() {
		// Stop waits for the connection handlers, which may be delivering a message
		go func() {
			for range cp.GetMsgChan() {
			}
		}()
		cp.Stop()
	}()
	var addr net.Addr
	for i := 0; i < 500 && addr == nil; i++ {
		time.Sleep(10 * time.Millisecond)
		addr = cp.GetAddress()
	}
	if addr == nil {
		t.Skip("collector did not start")
	}
	// upstream exporter -> collector
	up, err := exporter.InitExportingProcess(exporter.ExporterInput{CollectorAddress: addr.String(), CollectorProtocol: "tcp", ObservationDomainID: 1})
	if err != nil {
		t.Fatal(err)
	}
	defer up.CloseConnToCollector()
	ie1, _ := registry.GetInfoElement("sourceTransportPort", registry.IANAEnterpriseID)
	ie2, _ := registry.GetInfoElement("sourceIPv4Address", registry.IANAEnterpriseID)
	tid := up.NewTemplateID()
	tset, err := entities.MakeTemplateSet(tid, []*entities.InfoElement{ie1, ie2})
	if err != nil {
		t.Fatal(err)
	}
	if _, err := up.SendSet(tset); err != nil {
		t.Fatal(err)
	}
	dset, err := entities.MakeDataSet(tid, []entities.InfoElementWithValue{
		entities.NewUnsigned16InfoElement(ie1, 443),
		entities.NewIPAddressInfoElement(ie2, net.IP{10, 0, 0, 1}),
	})
	if err != nil {
		t.Fatal(err)
	}
	if _, err := up.SendSet(dset); err != nil {
		t.Fatal(err)
	}

	// downstream: a sink and the relay's own exporter
	ln, err := net.Listen("tcp", "127.0.0.1:0")
	if err != nil {
		t.Skipf("cannot listen: %v", err)
	}
	defer ln.Close()
	go func() {
		for {
			c, err := ln.Accept()
			if err != nil {
				return
			}
			go io.Copy(io.Discard, c)
		}
	}()
	down, err := exporter.InitExportingProcess(exporter.ExporterInput{CollectorAddress: ln.Addr().String(), CollectorProtocol: "tcp", ObservationDomainID: 1})
	if err != nil {
		t.Fatal(err)
	}
	defer down.CloseConnToCollector()

	for i := 0; i < 2; i++ {
		var msg *entities.Message
		select {
		case msg = <-cp.GetMsgChan():
		case <-time.After(10 * time.Second):
			t.Fatal("collector delivered nothing")
		}
		set := msg.GetSet()
		var n int
		p := func() (p interface{}) {
			defer func() { p = recover() }()
			n, err = down.SendSet(set)
			return nil
		}()
		if p != nil {
			t.Fatalf("relaying received set %d (type %d, reported length %d, %d record(s)): SendSet panicked: %v",
				i, set.GetSetType(), set.GetSetLength(), set.GetNumberOfRecords(), p)
		}
		if err != nil {
			t.Logf("set %d refused with an error (that would be fine): %v", i, err)
			continue
		}
		if n != entities.MsgHeaderLength+set.GetSetLength() {
			t.Errorf("set %d: %d bytes sent, set reports length %d", i, n, set.GetSetLength())
		}
	}
}
