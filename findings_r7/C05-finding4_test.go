// FINDING 4 (property C05, clean tree): a record that aggregateRecords REFUSES with an error is
// nevertheless half applied: the aggregated record's flowEndSeconds and the node's
// flowEndSecondsFrom...Node are already advanced when the error is returned, while no counter,
// no throughput and no other common field of that record is taken. The aggregate then carries an
// end time that none of its other fields belong to, and the next accepted records are judged
// ("is it the latest?") and measured (throughput interval) against that phantom end time.
//
// Place:   copy to WT/pkg/intermediate/finding4_test.go
// Run:     cd WT && go test -count=1 -timeout 120s -run 'TestFinding4' ./pkg/intermediate
//
// Clause violated: "the aggregated record always carries the latest end time, each total
// counter's latest value ...; the common fields follow the node that reported the latest end
// time". After the refused record the aggregate says "latest end time 112" (reported by the
// source node) but its common fields are the destination node's of time 110, the source node's
// fields are all zero although flowEndSecondsFromSourceNode says 112; and the destination node's
// next record (end 111 > 110, totals grown) no longer updates the common fields although that
// node is the only one whose records were ever accepted. Either reading of "refused" is broken:
// if a refused record must have no effect, the end times must stay 110/0; if it counts, its
// totals and deltas must be there.
//
// Why the input is legitimate: same rolling-upgrade situation as finding 2 with the roles
// swapped - the aggregator's NonStatsElements name httpVals, the destination node's template has
// it, the source node still runs an agent whose template does not. Each record is well formed;
// the first is accepted, the second is answered with the error "element with name httpVals in
// nonStatsElements not present in the incoming record" (a sender that gets an error expects the
// record to have been dropped), the third is accepted.
package intermediate_test

import (
	"net"
	"strings"
	"testing"
	"time"

	"github.com/vmware/go-ipfix/pkg/entities"
	"github.com/vmware/go-ipfix/pkg/intermediate"
	"github.com/vmware/go-ipfix/pkg/registry"
)

func f4Elements() *intermediate.AggregationElements {
	stats := []string{"packetTotalCount", "packetDeltaCount", "octetTotalCount", "octetDeltaCount",
		"reversePacketTotalCount", "reversePacketDeltaCount", "reverseOctetTotalCount", "reverseOctetDeltaCount"}
	var src, dst []string
	for _, s := range stats {
		src = append(src, s+"FromSourceNode")
		dst = append(dst, s+"FromDestinationNode")
	}
	return &intermediate.AggregationElements{
		NonStatsElements:                   []string{"flowEndSeconds", "flowEndReason", "tcpState", "httpVals"},
		StatsElements:                      stats,
		AggregatedSourceStatsElements:      src,
		AggregatedDestinationStatsElements: dst,
		AntreaFlowEndSecondsElements:       []string{"flowEndSecondsFromSourceNode", "flowEndSecondsFromDestinationNode"},
		ThroughputElements:                 []string{"throughput", "reverseThroughput"},
		SourceThroughputElements:           []string{"throughputFromSourceNode", "reverseThroughputFromSourceNode"},
		DestinationThroughputElements:      []string{"throughputFromDestinationNode", "reverseThroughputFromDestinationNode"},
	}
}

func f4IE(t testing.TB, name string) *entities.InfoElement {
	for _, en := range []uint32{registry.IANAEnterpriseID, registry.IANAReversedEnterpriseID, registry.AntreaEnterpriseID} {
		if ie, err := registry.GetInfoElement(name, en); err == nil {
			return ie
		}
	}
	t.Fatalf("element %s not in the registries", name)
	return nil
}

// f4Message builds a message with one record of the inter-node flow 10.0.0.1:1234 -> 10.0.0.2:80/tcp
// as the collector delivers it. fromSrc selects the reporting node; withHTTPVals says whether
// the node's template has the httpVals element.
func f4Message(t testing.TB, fromSrc, withHTTPVals bool, start, end uint32, total, delta uint64) *entities.Message {
	srcPod, dstPod := "podA", ""
	if !fromSrc {
		srcPod, dstPod = "", "podB"
	}
	el := []entities.InfoElementWithValue{
		entities.NewIPAddressInfoElement(f4IE(t, "sourceIPv4Address"), net.ParseIP("10.0.0.1").To4()),
		entities.NewIPAddressInfoElement(f4IE(t, "destinationIPv4Address"), net.ParseIP("10.0.0.2").To4()),
		entities.NewUnsigned16InfoElement(f4IE(t, "sourceTransportPort"), 1234),
		entities.NewUnsigned16InfoElement(f4IE(t, "destinationTransportPort"), 80),
		entities.NewUnsigned8InfoElement(f4IE(t, "protocolIdentifier"), 6),
		entities.NewStringInfoElement(f4IE(t, "sourcePodName"), srcPod),
		entities.NewStringInfoElement(f4IE(t, "destinationPodName"), dstPod),
		entities.NewUnsigned8InfoElement(f4IE(t, "flowType"), registry.FlowTypeInterNode),
		entities.NewDateTimeSecondsInfoElement(f4IE(t, "flowStartSeconds"), start),
		entities.NewDateTimeSecondsInfoElement(f4IE(t, "flowEndSeconds"), end),
		entities.NewUnsigned8InfoElement(f4IE(t, "flowEndReason"), registry.ActiveTimeoutReason),
		entities.NewStringInfoElement(f4IE(t, "tcpState"), "ESTABLISHED"),
	}
	if withHTTPVals {
		el = append(el, entities.NewStringInfoElement(f4IE(t, "httpVals"), `{"1":"{hostname:10.10.0.1,url:/public/,status:200}"}`))
	}
	for _, s := range f4Elements().StatsElements {
		v := total
		if strings.Contains(s, "Delta") {
			v = delta
		}
		el = append(el, entities.NewUnsigned64InfoElement(f4IE(t, s), v))
	}
	set := entities.NewSet(true)
	if err := set.PrepareSet(entities.Data, 256); err != nil {
		t.Fatal(err)
	}
	if err := set.AddRecord(el, 256); err != nil {
		t.Fatal(err)
	}
	m := entities.NewMessage(true)
	m.SetVersion(10)
	m.SetObsDomainID(1)
	m.SetExportAddress("127.0.0.1")
	m.AddSet(set)
	return m
}

func TestFinding4_RefusedRecordIsHalfApplied(t *testing.T) {
	registry.LoadRegistry()
	ap, err := intermediate.InitAggregationProcess(intermediate.AggregationInput{
		MessageChan:           make(chan *entities.Message),
		WorkerNum:             1,
		CorrelateFields:       []string{"sourcePodName", "destinationPodName"},
		AggregateElements:     f4Elements(),
		ActiveExpiryTimeout:   time.Hour,
		InactiveExpiryTimeout: time.Hour,
	})
	if err != nil {
		t.Fatal(err)
	}
	key := &intermediate.FlowKey{SourceAddress: "10.0.0.1", DestinationAddress: "10.0.0.2", Protocol: 6, SourcePort: 1234, DestinationPort: 80}
	get := func() map[string]interface{} {
		recs := ap.GetRecords(key)
		if len(recs) != 1 {
			t.Fatalf("%d records for the flow", len(recs))
		}
		return recs[0]
	}
	// Destination node (template with httpVals): end 110, totals 10. Accepted, creates the flow.
	if err := ap.AggregateMsgByFlowKey(f4Message(t, false, true, 100, 110, 10, 10)); err != nil {
		t.Fatalf("first record refused: %v", err)
	}
	// Source node (template without httpVals): end 112, totals 12. Refused with an error.
	err = ap.AggregateMsgByFlowKey(f4Message(t, true, false, 100, 112, 12, 12))
	got := get()
	if err != nil {
		t.Logf("second record refused: %v", err)
		untouched := got["flowEndSeconds"] == uint32(110) && got["flowEndSecondsFromSourceNode"] == uint32(0)
		applied := got["flowEndSeconds"] == uint32(112) && got["packetTotalCountFromSourceNode"] == uint64(12) && got["packetTotalCount"] == uint64(12)
		if !untouched && !applied {
			t.Errorf("the refused record is half applied: flowEndSeconds=%v flowEndSecondsFromSourceNode=%v packetTotalCountFromSourceNode=%v packetDeltaCountFromSourceNode=%v packetTotalCount=%v (want 110/0/0/0/10 or 112/112/12/12/12)",
				got["flowEndSeconds"], got["flowEndSecondsFromSourceNode"], got["packetTotalCountFromSourceNode"], got["packetDeltaCountFromSourceNode"], got["packetTotalCount"])
		}
	}
	// Destination node again: end 111 (later than its previous 110), totals 15. Accepted.
	if err := ap.AggregateMsgByFlowKey(f4Message(t, false, true, 100, 111, 15, 5)); err != nil {
		t.Fatalf("third record refused: %v", err)
	}
	got = get()
	// The only node whose records were accepted reported end 111 / total 15 last.
	if got["packetTotalCountFromSourceNode"] == uint64(0) && (got["flowEndSeconds"] != uint32(111) || got["packetTotalCount"] != uint64(15)) {
		t.Errorf("after the third record: flowEndSeconds=%v packetTotalCount=%v packetDeltaCount=%v although the source node contributed nothing (packetTotalCountFromSourceNode=0); want 111/15/15",
			got["flowEndSeconds"], got["packetTotalCount"], got["packetDeltaCount"])
	}
}
