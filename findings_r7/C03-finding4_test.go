// FINDING 4 (property C03, clean tree): the element registry is a pair of unsynchronised
// package-level maps. The collector reads them (registry.GetInfoElementFromID) on its own
// connection goroutines for every field of every template record it receives; an application
// that registers an enterprise element (registry.PutInfoElement / InitNewRegistry) after
// Start() writes them from its own goroutine. When a template record arrives during such a
// registration the Go runtime stops the process with
//     fatal error: concurrent map read and map write
// which cannot be recovered from.
//
// Place at:  WT/pkg/collector/finding4_test.go   (package collector, in-package test)
// Run with:  cd WT && go test -count=1 -timeout 120s -run 'TestFinding4_' ./pkg/collector
// Expected on the clean tree: the test BINARY dies ("fatal error: concurrent map read and map
// write" or "concurrent map writes", exit status 2) instead of reporting PASS; observed in
// 20 of 20 runs, each within a second. (With -race the same run reports DATA RACE between
// registry.PutInfoElement and registry.GetInfoElementFromID.)
//
// Clause violated: "For every byte string presented to a collecting process as a message,
// whatever templates it holds, decoding terminates promptly ... without crashing the process".
// The byte strings here are perfectly valid template messages.
//
// Why the schedule is legitimate: registering elements while the collector runs is something
// applications do (elements learnt late, e.g. from a configuration reload or after the first
// "unknown element" log line - the case "element registration after a collector first saw
// the element"). The application has no way to synchronise with the decoder: decoding happens
// on goroutines owned by the library, fed by the network, and the registry API offers no lock.
// Every step is accepted by the library.
package collector

import (
	"encoding/binary"
	"fmt"
	"net"
	"testing"
	"time"

	"github.com/vmware/go-ipfix/pkg/entities"
	"github.com/vmware/go-ipfix/pkg/registry"
)

func TestFinding4_RegistrationWhileTemplatesArriveKillsProcess(t *testing.T) {
	registry.LoadRegistry()
	const pen = 44444
	if err := registry.InitNewRegistry(pen); err != nil {
		t.Fatal(err)
	}
	cp, err := InitCollectingProcess(CollectorInput{Address: "127.0.0.1:0", Protocol: "tcp", MaxBufferSize: 65535, DecodingMode: DecodingModeLenientKeepUnknown})
	if err != nil {
		t.Fatal(err)
	}
	go cp.Start()
	defer cp.Stop()
	var addr net.Addr
	for i := 0; i < 500 && addr == nil; i++ {
		time.Sleep(10 * time.Millisecond)
		addr = cp.GetAddress()
	}
	if addr == nil {
		t.Fatal("collector did not start")
	}
	go func() { // the application: consumes messages
		for range cp.GetMsgChan() {
		}
	}()

	// An ordinary exporter: sends a valid template record (100 fields of the enterprise the
	// application is about to learn) over and over, as a template refresh would. In this
	// decoding mode fields which are not registered (yet) are kept as octet arrays.
	const fields = 100
	body := make([]byte, 4+8*fields)
	binary.BigEndian.PutUint16(body[0:], 256)
	binary.BigEndian.PutUint16(body[2:], fields)
	for i := 0; i < fields; i++ {
		binary.BigEndian.PutUint16(body[4+8*i:], 0x8000|uint16(20000+i))
		binary.BigEndian.PutUint16(body[6+8*i:], 4)
		binary.BigEndian.PutUint32(body[8+8*i:], pen)
	}
	msg := make([]byte, 20, 20+len(body))
	binary.BigEndian.PutUint16(msg[0:], 10)
	binary.BigEndian.PutUint16(msg[2:], uint16(20+len(body)))
	binary.BigEndian.PutUint32(msg[12:], 1)
	binary.BigEndian.PutUint16(msg[16:], 2)
	binary.BigEndian.PutUint16(msg[18:], uint16(4+len(body)))
	msg = append(msg, body...)

	conn, err := net.Dial("tcp", addr.String())
	if err != nil {
		t.Fatal(err)
	}
	defer conn.Close()
	stop := make(chan struct{})
	go func() {
		for {
			select {
			case <-stop:
				return
			default:
			}
			if _, err := conn.Write(msg); err != nil {
				return
			}
		}
	}()

	// The application, meanwhile, registers the enterprise elements it has learnt about.
	deadline := time.Now().Add(10 * time.Second)
	for id := uint16(1); time.Now().Before(deadline); id++ {
		ie := entities.NewInfoElement(fmt.Sprintf("lateElement%d", id), id%32768, entities.Unsigned32, pen, 4)
		_ = registry.PutInfoElement(*ie, pen)
	}
	close(stop)
	t.Log("no crash in 10 s of concurrent registration and template decoding")
}
