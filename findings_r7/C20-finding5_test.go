// Finding 5 for property C20 (part B, round 7) - fails on the CLEAN tree.
//
// Place:   copy to WT/cmd/collector/finding5_test.go   (package main, in-package test)
// Run:     cd WT && go test -count=1 -timeout 120s -run 'TestFinding5' ./cmd/collector
//
// Clauses violated: "a records query for n returns the last min(n, stored) entries in that order
// in either format" together with "Every field of every record of a message appears, by element
// name and value, in that message's rendered entry".
//
// Input: an exporter sends (tcp, pipeline of run()) a record whose string field interfaceName
// holds bytes that are not UTF-8: "caf\xe9" (Latin-1 "cafe" with acute accent - interface
// descriptions, user names and HTTP values from real devices are often Latin-1), and a second
// record with the value "caf\xe8". The messages are accepted and stored.
// Observed: GET /records?format=text returns the entries with the bytes as received, but
// GET /records?format=json returns DIFFERENT entries: encoding/json replaces every invalid byte
// by U+FFFD, so the JSON form of the entry no longer contains the value, the two formats
// disagree, and the two distinct values "caf\xe9" and "caf\xe8" become indistinguishable.
// Expected: both formats return the stored entries (for JSON e.g. by escaping such bytes when
// the entry is rendered, so that it is valid text in the first place).
//
// Why legitimate: the collector accepts the record (string values are not validated), stores
// it, and the text format proves that the entry holds the value; only the JSON view loses it.
package main

import (
	"encoding/binary"
	"encoding/json"
	"net"
	"net/http"
	"net/http/httptest"
	"strings"
	"testing"
	"time"

	"github.com/vmware/go-ipfix/pkg/collector"
	"github.com/vmware/go-ipfix/pkg/registry"
)

func f5StoreLen() int {
	mutex.Lock()
	defer mutex.Unlock()
	return len(flowRecords)
}

// f5Start runs the pipeline of run(): collecting process with run()'s parameters (ephemeral
// port), every delivered message goes to addIPFIXMessage.
func f5Start(t *testing.T) net.Conn {
	registry.LoadRegistry()
	mutex.Lock()
	flowRecords = nil
	mutex.Unlock()
	cp, err := collector.InitCollectingProcess(collector.CollectorInput{
		Address:       "127.0.0.1:0",
		Protocol:      "tcp",
		MaxBufferSize: 65535,
		TemplateTTL:   0,
	})
	if err != nil {
		t.Fatal(err)
	}
	go func() {
		go cp.Start()
		for message := range cp.GetMsgChan() {
			addIPFIXMessage(message)
		}
	}()
	deadline := time.Now().Add(10 * time.Second)
	for cp.GetAddress() == nil {
		if time.Now().After(deadline) {
			t.Fatal("collector did not start")
		}
		time.Sleep(5 * time.Millisecond)
	}
	conn, err := net.Dial("tcp", cp.GetAddress().String())
	if err != nil {
		t.Fatal(err)
	}
	t.Cleanup(func() {
		conn.Close()
		cp.Stop()
		mutex.Lock()
		flowRecords = nil
		mutex.Unlock()
	})
	return conn
}

func f5Message(seq uint32, setID uint16, body []byte) []byte {
	b := make([]byte, 16)
	binary.BigEndian.PutUint16(b[0:], 10)
	binary.BigEndian.PutUint16(b[2:], uint16(16+4+len(body)))
	binary.BigEndian.PutUint32(b[4:], 1700000000)
	binary.BigEndian.PutUint32(b[8:], seq)
	binary.BigEndian.PutUint32(b[12:], 1)
	b = binary.BigEndian.AppendUint16(b, setID)
	b = binary.BigEndian.AppendUint16(b, uint16(4+len(body)))
	return append(b, body...)
}

func f5U16(vs ...uint16) []byte {
	var b []byte
	for _, v := range vs {
		b = binary.BigEndian.AppendUint16(b, v)
	}
	return b
}

func f5U32(vs ...uint32) []byte {
	var b []byte
	for _, v := range vs {
		b = binary.BigEndian.AppendUint32(b, v)
	}
	return b
}

// f5SendAndWait writes one message and waits until the store has grown by one entry.
func f5SendAndWait(t *testing.T, conn net.Conn, msg []byte, what string) {
	want := f5StoreLen() + 1
	if _, err := conn.Write(msg); err != nil {
		t.Fatalf("%s: write: %v", what, err)
	}
	deadline := time.Now().Add(5 * time.Second)
	for f5StoreLen() < want {
		if time.Now().After(deadline) {
			t.Fatalf("%s: the message was not stored (refused by the collector?)", what)
		}
		time.Sleep(2 * time.Millisecond)
	}
}

func TestFinding5JSONFormatLosesStringValue(t *testing.T) {
	conn := f5Start(t)
	// template 256: interfaceName(82), variable length
	f5SendAndWait(t, conn, f5Message(0, 2, f5U16(256, 1, 82, 65535)), "template")
	f5SendAndWait(t, conn, f5Message(0, 256, append([]byte{4}, "caf\xe9"...)), "data 1")
	f5SendAndWait(t, conn, f5Message(1, 256, append([]byte{4}, "caf\xe8"...)), "data 2")

	rr := httptest.NewRecorder()
	flowRecordHandler(rr, httptest.NewRequest(http.MethodGet, "/records?count=2&format=text", nil))
	text := strings.Split(rr.Body.String(), string(flowTextSeparator))
	if len(text) != 3 {
		t.Fatalf("text format: %d fragments", len(text))
	}
	text = text[:2]
	if !strings.Contains(text[0], "interfaceName: caf\xe9 ") || !strings.Contains(text[1], "interfaceName: caf\xe8 ") {
		t.Fatalf("text format does not show the values as received: %q", text)
	}

	rr = httptest.NewRecorder()
	flowRecordHandler(rr, httptest.NewRequest(http.MethodGet, "/records?count=2&format=json", nil))
	var resp jsonResponse
	if err := json.Unmarshal(rr.Body.Bytes(), &resp); err != nil {
		t.Fatal(err)
	}
	if len(resp.FlowRecords) != 2 {
		t.Fatalf("json format: %d entries", len(resp.FlowRecords))
	}
	for i := range text {
		if resp.FlowRecords[i] != text[i] {
			t.Errorf("entry %d differs between the formats:\n text: %q\n json: %q", i, text[i], resp.FlowRecords[i])
		}
	}
	strip := func(e string) string { return e[strings.Index(e, "DATA SET:"):] }
	if strip(resp.FlowRecords[0]) == strip(resp.FlowRecords[1]) {
		t.Errorf("json format renders two records with different values identically: %q", strip(resp.FlowRecords[0]))
	}
}
