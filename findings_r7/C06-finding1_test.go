// FINDING 1 (property C06) - fails on the CLEAN tree.
//
// Place at:  WT/pkg/intermediate/finding1_test.go
// Run with:  cd WT && go test -count=1 -timeout 120s -run 'TestFinding1' ./pkg/intermediate
//
// Clause violated: "active expiry keeps it. After any sequence of arrivals, expiry scans and
// callback failures, every flow still held is scheduled for a future expiry" (and "handed to
// the expiry callback exactly when its active deadline ... has passed": the callback runs
// twice for one deadline in one scan).
//
// Input: an aggregation process whose ActiveExpiryTimeout is 0 (the zero value of
// AggregationInput, which InitAggregationProcess accepts without complaint; it is what a
// caller gets who only sets the inactive timeout, or who wants "export on every scan").
// One ordinary record arrives, then ForAllExpiredFlowRecordsDo is called with a callback that
// always succeeds.
//
// What happens in ForAllExpiredFlowRecordsDo: the scan decides "expired" with
// !deadline.After(now) (deadline <= now) but decides "which deadline was it / re-arm" with
// deadline.Before(now) (deadline < now). After the first active export the item is re-armed to
// now+0 == now and pushed back; the loop sees it again as expired (now <= now), pops it, calls
// the callback a SECOND time, and then neither branch (inactive.Before(now), active.Before(now))
// applies, so the popped item is dropped: the flow stays in the map, its queue item has index -1,
// the queue is empty. From then on the flow is never exported and never removed (later records
// for it end in heap.Fix(pq, -1), which is a silent no-op), i.e. it is stranded for ever and the
// map grows without bound. The same happens for any deadline that equals the scan's time.Now()
// exactly; a zero timeout merely makes that equality certain.
//
// The test is public-API only (package intermediate_test would do as well).
package intermediate

import (
	"net"
	"testing"
	"time"

	"github.com/vmware/go-ipfix/pkg/entities"
	"github.com/vmware/go-ipfix/pkg/registry"
)

func finding1Msg(t *testing.T, srcPort uint16) *entities.Message {
	t.Helper()
	registry.LoadRegistry()
	mk := func(name string, ent uint32) *entities.InfoElement {
		ie, err := registry.GetInfoElement(name, ent)
		if err != nil {
			t.Fatal(err)
		}
		return ie
	}
	elements := []entities.InfoElementWithValue{
		entities.NewIPAddressInfoElement(mk("sourceIPv4Address", 0), net.ParseIP("10.0.0.1").To4()),
		entities.NewIPAddressInfoElement(mk("destinationIPv4Address", 0), net.ParseIP("10.0.0.2").To4()),
		entities.NewUnsigned16InfoElement(mk("sourceTransportPort", 0), srcPort),
		entities.NewUnsigned16InfoElement(mk("destinationTransportPort", 0), 80),
		entities.NewUnsigned8InfoElement(mk("protocolIdentifier", 0), 6),
		entities.NewUnsigned8InfoElement(mk("flowType", registry.AntreaEnterpriseID), registry.FlowTypeIntraNode),
	}
	set := entities.NewSet(false)
	if err := set.PrepareSet(entities.Data, 256); err != nil {
		t.Fatal(err)
	}
	if err := set.AddRecord(elements, 256); err != nil {
		t.Fatal(err)
	}
	msg := entities.NewMessage(false)
	msg.AddSet(set)
	return msg
}

func TestFinding1ZeroActiveTimeoutStrandsFlow(t *testing.T) {
	ch := make(chan *entities.Message)
	ap, err := InitAggregationProcess(AggregationInput{
		MessageChan:           ch,
		WorkerNum:             1,
		InactiveExpiryTimeout: time.Hour, // ActiveExpiryTimeout left at its zero value
	})
	if err != nil {
		t.Fatalf("InitAggregationProcess refused the configuration: %v", err)
	}
	if err := ap.AggregateMsgByFlowKey(finding1Msg(t, 1234)); err != nil {
		t.Fatal(err)
	}
	time.Sleep(2 * time.Millisecond)

	calls := 0
	cb := func(key FlowKey, rec *AggregationFlowRecord) error { calls++; return nil }
	if err := ap.ForAllExpiredFlowRecordsDo(cb); err != nil {
		t.Fatal(err)
	}
	t.Logf("scan 1: callback invoked %d time(s), flows held %d", calls, ap.GetNumFlows())
	if calls != 1 {
		t.Errorf("scan 1: the flow's single passed active deadline led to %d callback invocations, want 1", calls)
	}
	if n := ap.GetNumFlows(); n != 1 {
		t.Fatalf("active expiry must keep the flow; flows held = %d", n)
	}

	// The flow is still held, so it must be scheduled: with a zero active timeout it is due
	// again at once, so every later scan has to hand it to the callback again.
	for scan := 2; scan <= 4; scan++ {
		// a further record for the flow must not make a difference either
		if err := ap.AggregateMsgByFlowKey(finding1Msg(t, 1234)); err != nil {
			t.Fatal(err)
		}
		time.Sleep(2 * time.Millisecond)
		before := calls
		if err := ap.ForAllExpiredFlowRecordsDo(cb); err != nil {
			t.Fatal(err)
		}
		if calls == before {
			t.Errorf("scan %d: flow still held (GetNumFlows=%d) but never handed to the callback again: it is stranded (not scheduled any more)", scan, ap.GetNumFlows())
		}
	}
	// The advertised time to the next expiry must reflect the held flow's (already passed)
	// deadline, i.e. be the minimum; with the queue wrongly empty the process advertises
	// min(active, inactive timeout) = 0 instead, by accident the same here, so check the
	// inactive side as well: even after the inactive deadline the flow is never removed.
	// (Not waited for here; an hour is too long. The stranding above is the point.)
}
