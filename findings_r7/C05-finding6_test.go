// FINDING 6 (property C05, clean tree; low practical weight): throughput is computed as
// total*8/dt in uint64, so an octet total (or growth of it) of 2^61 or more wraps around and the
// reported throughput is silently wrong (here: 0 instead of 2^60 bit/s).
//
// Place:   copy to WT/pkg/intermediate/finding6_test.go
// Run:     cd WT && go test -count=1 -timeout 120s -run 'TestFinding6' ./pkg/intermediate
//
// Clause violated: "throughput equal to 8 x the growth of the octet total divided by the growth
// of the end time since that node's previous record", quantified over "all counter values".
// With growth 2^61 octets over 16 s the exact value 2^64/16 = 2^60 fits the unsigned64 element,
// but the library reports (2^61*8 mod 2^64)/16 = 0; dividing first, or using math/bits.Mul64,
// would give the right answer.
//
// Why the input is legitimate: octetTotalCount is an unsigned64 element and every value of it
// is accepted; 2^61 octets are out of reach for one real flow today, hence the low weight - but
// a test that bounds its counters "to keep the model simple" never sees it.
package intermediate_test

import (
	"net"
	"strings"
	"testing"
	"time"

	"github.com/vmware/go-ipfix/pkg/entities"
	"github.com/vmware/go-ipfix/pkg/intermediate"
	"github.com/vmware/go-ipfix/pkg/registry"
)

var f6Stats = []string{"packetTotalCount", "packetDeltaCount", "octetTotalCount", "octetDeltaCount",
	"reversePacketTotalCount", "reversePacketDeltaCount", "reverseOctetTotalCount", "reverseOctetDeltaCount"}

func f6IE(t testing.TB, name string) *entities.InfoElement {
	for _, en := range []uint32{registry.IANAEnterpriseID, registry.IANAReversedEnterpriseID, registry.AntreaEnterpriseID} {
		if ie, err := registry.GetInfoElement(name, en); err == nil {
			return ie
		}
	}
	t.Fatalf("element %s not in the registries", name)
	return nil
}

func f6Message(t testing.TB, start, end uint32, total, delta uint64) *entities.Message {
	el := []entities.InfoElementWithValue{
		entities.NewIPAddressInfoElement(f6IE(t, "sourceIPv4Address"), net.ParseIP("10.0.0.1").To4()),
		entities.NewIPAddressInfoElement(f6IE(t, "destinationIPv4Address"), net.ParseIP("10.0.0.2").To4()),
		entities.NewUnsigned16InfoElement(f6IE(t, "sourceTransportPort"), 1234),
		entities.NewUnsigned16InfoElement(f6IE(t, "destinationTransportPort"), 80),
		entities.NewUnsigned8InfoElement(f6IE(t, "protocolIdentifier"), 6),
		entities.NewStringInfoElement(f6IE(t, "sourcePodName"), "podA"),
		entities.NewStringInfoElement(f6IE(t, "destinationPodName"), "podB"),
		entities.NewUnsigned8InfoElement(f6IE(t, "flowType"), registry.FlowTypeIntraNode),
		entities.NewDateTimeSecondsInfoElement(f6IE(t, "flowStartSeconds"), start),
		entities.NewDateTimeSecondsInfoElement(f6IE(t, "flowEndSeconds"), end),
	}
	for _, s := range f6Stats {
		v := total
		if strings.Contains(s, "Delta") {
			v = delta
		}
		el = append(el, entities.NewUnsigned64InfoElement(f6IE(t, s), v))
	}
	set := entities.NewSet(true)
	if err := set.PrepareSet(entities.Data, 256); err != nil {
		t.Fatal(err)
	}
	if err := set.AddRecord(el, 256); err != nil {
		t.Fatal(err)
	}
	m := entities.NewMessage(true)
	m.SetVersion(10)
	m.SetObsDomainID(1)
	m.SetExportAddress("127.0.0.1")
	m.AddSet(set)
	return m
}

func TestFinding6_ThroughputOverflow(t *testing.T) {
	registry.LoadRegistry()
	var src, dst []string
	for _, s := range f6Stats {
		src = append(src, s+"FromSourceNode")
		dst = append(dst, s+"FromDestinationNode")
	}
	ap, err := intermediate.InitAggregationProcess(intermediate.AggregationInput{
		MessageChan: make(chan *entities.Message),
		WorkerNum:   1,
		AggregateElements: &intermediate.AggregationElements{
			NonStatsElements:                   []string{"flowEndSeconds"},
			StatsElements:                      f6Stats,
			AggregatedSourceStatsElements:      src,
			AggregatedDestinationStatsElements: dst,
			AntreaFlowEndSecondsElements:       []string{"flowEndSecondsFromSourceNode", "flowEndSecondsFromDestinationNode"},
			ThroughputElements:                 []string{"throughput", "reverseThroughput"},
			SourceThroughputElements:           []string{"throughputFromSourceNode", "reverseThroughputFromSourceNode"},
			DestinationThroughputElements:      []string{"throughputFromDestinationNode", "reverseThroughputFromDestinationNode"},
		},
		ActiveExpiryTimeout:   time.Hour,
		InactiveExpiryTimeout: time.Hour,
	})
	if err != nil {
		t.Fatal(err)
	}
	if err := ap.AggregateMsgByFlowKey(f6Message(t, 100, 110, 1000, 1000)); err != nil {
		t.Fatal(err)
	}
	// 16 s later the totals have grown by 2^61.
	if err := ap.AggregateMsgByFlowKey(f6Message(t, 100, 126, 1000+1<<61, 1<<61)); err != nil {
		t.Fatal(err)
	}
	key := &intermediate.FlowKey{SourceAddress: "10.0.0.1", DestinationAddress: "10.0.0.2", Protocol: 6, SourcePort: 1234, DestinationPort: 80}
	recs := ap.GetRecords(key)
	if len(recs) != 1 {
		t.Fatalf("%d records", len(recs))
	}
	for _, k := range []string{"throughput", "throughputFromSourceNode", "reverseThroughputFromDestinationNode"} {
		if recs[0][k] != uint64(1<<60) {
			t.Errorf("%s = %v, want %v (8 * 2^61 / 16)", k, recs[0][k], uint64(1<<60))
		}
	}
}
