// Finding 2 for property C11, on the CLEAN tree: the collector ignores the field length that a
// template record carries whenever the element is in its registry, and cuts the data records with
// the registry's length instead. A TCP stream made only of valid RFC 7011 messages is then either
// refused (connection closed, the rest of the stream lost) or delivered as a different sequence of
// records than the one the stream contains.
//
// Place:   copy to WT/pkg/collector/finding2_test.go
// Run:     cd WT && go test -count=1 -timeout 120s -run 'TestFinding2C11' ./pkg/collector
//
// Clause of C11: "Over TCP the collector delivers exactly the sequence of messages the byte stream
// contains" (and, for the first test, "After the first UNDECODABLE message the connection is
// closed": the connection is closed on a message that is perfectly decodable).
//
// Why the input is legitimate:
//   - Fixed-length strings: RFC 7011 section 7 lets any string / octetArray element be exported
//     with a fixed length given in the template (this is what Cisco, nProbe, ... do for
//     interfaceName and applicationName, typically 32 or 64 bytes); this library's own exporter
//     supports fixed-length strings and octet arrays too. paddingOctets (210) is always used that
//     way.
//   - Reduced-size encoding: RFC 7011 section 6.2 lets unsigned64 counters be exported in 4 bytes;
//     hardware exporters commonly send octetDeltaCount / packetDeltaCount as 4-byte fields.
//   Each template below is accepted and delivered by the collector; the failure only shows on
//   the data message that follows. In decodeTemplateSet (collector/process.go) the element
//   returned by registry.GetInfoElementFromID is stored as is, and `elementLength` read from
//   the wire is used only for unknown elements.
package collector

import (
	"encoding/binary"
	"io"
	"net"
	"sync"
	"testing"
	"time"

	"github.com/vmware/go-ipfix/pkg/entities"
	"github.com/vmware/go-ipfix/pkg/registry"
)

func finding2Msg(seq uint32, setID uint16, body []byte) []byte {
	total := 16 + 4 + len(body)
	b := make([]byte, 20, total)
	binary.BigEndian.PutUint16(b[0:], 10)
	binary.BigEndian.PutUint16(b[2:], uint16(total))
	binary.BigEndian.PutUint32(b[4:], 1700000000)
	binary.BigEndian.PutUint32(b[8:], seq)
	binary.BigEndian.PutUint32(b[12:], 5)
	binary.BigEndian.PutUint16(b[16:], setID)
	binary.BigEndian.PutUint16(b[18:], uint16(4+len(body)))
	return append(b, body...)
}

// finding2Run sends the stream over one TCP connection and returns what was delivered and
// whether the collector closed the connection.
func finding2Run(t *testing.T, stream ...[]byte) (msgs []*entities.Message, closed bool) {
	registry.LoadRegistry()
	cp, err := InitCollectingProcess(CollectorInput{Address: "127.0.0.1:0", Protocol: "tcp"})
	if err != nil {
		t.Fatal(err)
	}
	go cp.Start()
	for i := 0; cp.GetAddress() == nil; i++ {
		if i > 500 {
			t.Fatal("collector did not start")
		}
		time.Sleep(10 * time.Millisecond)
	}
	var mu sync.Mutex
	drain := make(chan struct{})
	go func() {
		defer close(drain)
		for m := range cp.GetMsgChan() {
			mu.Lock()
			msgs = append(msgs, m)
			mu.Unlock()
		}
	}()
	conn, err := net.Dial("tcp", cp.GetAddress().String())
	if err != nil {
		t.Fatal(err)
	}
	defer conn.Close()
	for _, m := range stream {
		conn.Write(m)
	}
	conn.SetReadDeadline(time.Now().Add(time.Second))
	_, rerr := conn.Read(make([]byte, 1))
	if rerr == io.EOF {
		closed = true
	} else if ne, ok := rerr.(net.Error); rerr != nil && !(ok && ne.Timeout()) {
		closed = true
	}
	cp.Stop()
	cp.CloseMsgChan()
	<-drain
	return msgs, closed
}

// sourceIPv4Address[4] + interfaceName as a fixed-length string of 8 bytes.
func TestFinding2C11_FixedLengthString(t *testing.T) {
	tpl := finding2Msg(0, 2, []byte{1, 0, 0, 2, 0, 8, 0, 4, 0, 82, 0, 8})
	data1 := finding2Msg(0, 256, []byte{10, 0, 0, 1, 'e', 't', 'h', '0', 0, 0, 0, 0})
	data2 := finding2Msg(1, 256, []byte{10, 0, 0, 2, 'e', 't', 'h', '1', 0, 0, 0, 0})
	msgs, closed := finding2Run(t, tpl, data1, data2)
	if closed {
		t.Errorf("the collector closed the connection although the stream holds only valid messages")
	}
	if len(msgs) != 3 {
		t.Fatalf("the stream holds 3 messages, %d were delivered", len(msgs))
	}
	recs := msgs[1].GetSet().GetRecords()
	if len(recs) != 1 {
		t.Fatalf("first data message: 1 record expected, got %d", len(recs))
	}
	name, _, _ := recs[0].GetInfoElementWithValue("interfaceName")
	if got := name.GetStringValue(); got != "eth0\x00\x00\x00\x00" {
		t.Errorf("interfaceName = %q", got)
	}
}

// octetDeltaCount and packetDeltaCount in reduced-size encoding (4 bytes each), two records.
func TestFinding2C11_ReducedSizeCounters(t *testing.T) {
	tpl := finding2Msg(0, 2, []byte{1, 0, 0, 2, 0, 1, 0, 4, 0, 2, 0, 4})
	data := finding2Msg(0, 256, []byte{0, 0, 4, 0, 0, 0, 0, 3, 0, 0, 8, 0, 0, 0, 0, 6})
	msgs, closed := finding2Run(t, tpl, data)
	if closed {
		t.Errorf("the collector closed the connection although the stream holds only valid messages")
	}
	if len(msgs) != 2 {
		t.Fatalf("the stream holds 2 messages, %d were delivered", len(msgs))
	}
	recs := msgs[1].GetSet().GetRecords()
	if len(recs) != 2 {
		t.Fatalf("the data set holds 2 records of 8 bytes, the collector delivered %d", len(recs))
	}
	octets, _, _ := recs[0].GetInfoElementWithValue("octetDeltaCount")
	if got := octets.GetUnsigned64Value(); got != 1024 {
		t.Errorf("octetDeltaCount of the first record = %d, want 1024", got)
	}
}

// paddingOctets[2] used, as RFC 7011 section 3.3.1 suggests, to align records.
func TestFinding2C11_PaddingOctets(t *testing.T) {
	tpl := finding2Msg(0, 2, []byte{1, 0, 0, 3, 0, 8, 0, 4, 0, 7, 0, 2, 0, 210, 0, 2})
	data := finding2Msg(0, 256, []byte{10, 0, 0, 1, 0x1f, 0x90, 0, 0, 10, 0, 0, 2, 0x01, 0xbb, 0, 0})
	msgs, closed := finding2Run(t, tpl, data)
	if closed {
		t.Errorf("the collector closed the connection although the stream holds only valid messages")
	}
	if len(msgs) != 2 {
		t.Fatalf("the stream holds 2 messages, %d were delivered", len(msgs))
	}
	recs := msgs[1].GetSet().GetRecords()
	if len(recs) != 2 {
		t.Fatalf("the data set holds 2 records of 8 bytes, the collector delivered %d", len(recs))
	}
	second, _, _ := recs[1].GetInfoElementWithValue("sourceIPv4Address")
	if !second.GetIPAddressValue().Equal(net.IPv4(10, 0, 0, 2)) {
		t.Errorf("sourceIPv4Address of the second record = %v, want 10.0.0.2", second.GetIPAddressValue())
	}
}
