// FINDING 3 (property C05, clean tree): an aggregation process whose AggregationElements leave
// AntreaFlowEndSecondsElements empty is accepted by InitAggregationProcess and takes the first
// record of every flow, but PANICS (nil pointer dereference in updateFlowEndSecondsFromNodes) on
// the SECOND record of any flow.
//
// Place:   copy to WT/pkg/intermediate/finding3_test.go
// Run:     cd WT && go test -count=1 -timeout 120s -run 'TestFinding3' ./pkg/intermediate
//
// Clause violated: "the aggregated record always carries the latest end time, each total
// counter's latest value, and in each reporting node's fields the sum of every delta counter over
// all records that node sent" - the second record of a flow (increasing end time, non-decreasing
// totals) crashes the process instead of being aggregated.
//
// Why the input is legitimate: AggregationElements is a struct of eight independent lists;
// InitAggregationProcess validates only that the three stats lists and the three throughput
// lists have equal lengths. The lists for throughput and for the per-node end times are later
// additions to the struct (upstream added throughput after stats aggregation), so a caller
// written against the earlier API (or one that does not want throughput) sets NonStatsElements/StatsElements/Aggregated*StatsElements
// only - exactly what the zero value of the newer fields means. Empty throughput lists are
// handled (the loops do nothing), the empty end-time list is not: aggregateRecords looks up
// "flowEndSecondsFromSourceNode"/"flowEndSecondsFromDestinationNode" in the existing record
// unconditionally and calls a method on the nil result. Every step is accepted without error
// (Init, first record); the panic happens on a bare worker goroutine in production.
package intermediate_test

import (
	"net"
	"strings"
	"testing"
	"time"

	"github.com/vmware/go-ipfix/pkg/entities"
	"github.com/vmware/go-ipfix/pkg/intermediate"
	"github.com/vmware/go-ipfix/pkg/registry"
)

var f3Stats = []string{"packetTotalCount", "packetDeltaCount", "octetTotalCount", "octetDeltaCount",
	"reversePacketTotalCount", "reversePacketDeltaCount", "reverseOctetTotalCount", "reverseOctetDeltaCount"}

func f3IE(t testing.TB, name string) *entities.InfoElement {
	for _, en := range []uint32{registry.IANAEnterpriseID, registry.IANAReversedEnterpriseID, registry.AntreaEnterpriseID} {
		if ie, err := registry.GetInfoElement(name, en); err == nil {
			return ie
		}
	}
	t.Fatalf("element %s not in the registries", name)
	return nil
}

func f3Message(t testing.TB, start, end uint32, total, delta uint64) *entities.Message {
	el := []entities.InfoElementWithValue{
		entities.NewIPAddressInfoElement(f3IE(t, "sourceIPv4Address"), net.ParseIP("10.0.0.1").To4()),
		entities.NewIPAddressInfoElement(f3IE(t, "destinationIPv4Address"), net.ParseIP("10.0.0.2").To4()),
		entities.NewUnsigned16InfoElement(f3IE(t, "sourceTransportPort"), 1234),
		entities.NewUnsigned16InfoElement(f3IE(t, "destinationTransportPort"), 80),
		entities.NewUnsigned8InfoElement(f3IE(t, "protocolIdentifier"), 6),
		entities.NewStringInfoElement(f3IE(t, "sourcePodName"), "podA"),
		entities.NewStringInfoElement(f3IE(t, "destinationPodName"), "podB"),
		entities.NewUnsigned8InfoElement(f3IE(t, "flowType"), registry.FlowTypeIntraNode),
		entities.NewDateTimeSecondsInfoElement(f3IE(t, "flowStartSeconds"), start),
		entities.NewDateTimeSecondsInfoElement(f3IE(t, "flowEndSeconds"), end),
	}
	for _, s := range f3Stats {
		v := total
		if strings.Contains(s, "Delta") {
			v = delta
		}
		el = append(el, entities.NewUnsigned64InfoElement(f3IE(t, s), v))
	}
	set := entities.NewSet(true)
	if err := set.PrepareSet(entities.Data, 256); err != nil {
		t.Fatal(err)
	}
	if err := set.AddRecord(el, 256); err != nil {
		t.Fatal(err)
	}
	m := entities.NewMessage(true)
	m.SetVersion(10)
	m.SetObsDomainID(1)
	m.SetExportAddress("127.0.0.1")
	m.AddSet(set)
	return m
}

func TestFinding3_EndSecondsElementsLeftEmpty(t *testing.T) {
	registry.LoadRegistry()
	var src, dst []string
	for _, s := range f3Stats {
		src = append(src, s+"FromSourceNode")
		dst = append(dst, s+"FromDestinationNode")
	}
	ap, err := intermediate.InitAggregationProcess(intermediate.AggregationInput{
		MessageChan: make(chan *entities.Message),
		WorkerNum:   1,
		AggregateElements: &intermediate.AggregationElements{
			NonStatsElements:                   []string{"flowEndSeconds"},
			StatsElements:                      f3Stats,
			AggregatedSourceStatsElements:      src,
			AggregatedDestinationStatsElements: dst,
			// no throughput wanted: the four newer lists keep their zero value
		},
		ActiveExpiryTimeout:   time.Hour,
		InactiveExpiryTimeout: time.Hour,
	})
	if err != nil {
		t.Fatalf("configuration refused: %v", err)
	}
	if err := ap.AggregateMsgByFlowKey(f3Message(t, 100, 110, 10, 10)); err != nil {
		t.Fatalf("first record refused: %v", err)
	}
	var panicked interface{}
	func() {
		defer func() { panicked = recover() }()
		err = ap.AggregateMsgByFlowKey(f3Message(t, 100, 120, 25, 15))
	}()
	if panicked != nil {
		t.Fatalf("AggregateMsgByFlowKey panicked on the second record of a flow: %v", panicked)
	}
	if err != nil {
		t.Fatalf("second record refused: %v", err)
	}
	key := &intermediate.FlowKey{SourceAddress: "10.0.0.1", DestinationAddress: "10.0.0.2", Protocol: 6, SourcePort: 1234, DestinationPort: 80}
	recs := ap.GetRecords(key)
	if len(recs) != 1 {
		t.Fatalf("%d records for the flow", len(recs))
	}
	for k, w := range map[string]interface{}{
		"flowEndSeconds":                      uint32(120),
		"packetTotalCount":                    uint64(25),
		"packetDeltaCount":                    uint64(25),
		"octetDeltaCountFromSourceNode":       uint64(25),
		"packetDeltaCountFromDestinationNode": uint64(25),
	} {
		if recs[0][k] != w {
			t.Errorf("%s = %v, want %v", k, recs[0][k], w)
		}
	}
}
