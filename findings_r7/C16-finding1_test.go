// Finding 1 for property C16 (CLEAN tree): a record added "with spare capacity"
// and then filled through Record.AddInfoElement leaves the set's length stale;
// serializing the set panics.
//
// Place at:  WT/pkg/exporter/finding1_test.go
// Run with:  cd WT && go test -count=1 -timeout 120s -run 'TestFinding1C16' ./pkg/exporter
//
// Clause violated: "A set's reported length always equals 4 plus the sum of its
// records' reported lengths and equals the number of bytes that get serialized
// for it."
//
// Why the input is legitimate: AddRecordWithExtraElements(elements, k, id)
// exists for exactly one purpose - to reserve room for k more elements that the
// application appends to the record later with Record.AddInfoElement (this is
// how Antrea's flow aggregator adds its correlation / metadata fields to a
// record it already holds).  Every step below is accepted without error:
//   set.PrepareSet(Data, 256)
//   set.AddRecordWithExtraElements([2 elements], 1, 256)
//   set.GetRecords()[0].AddInfoElement(third element)      -> nil
// After the last step the record reports 6+4 bytes, but the set still reports
// 4+6, and exporter.CreateIPFIXMsg (and therefore ExportingProcess.SendSet, whose
// sanity checks the 3-field record passes for a 3-field template) allocates the
// message from the stale set length and then slices past its end:
//   panic: runtime error: slice bounds out of range [:30] with capacity 26
// FAILS on the clean tree (both tests).
package exporter

import (
	"io"
	"net"
	"testing"
	"time"

	"github.com/vmware/go-ipfix/pkg/entities"
)

func TestFinding1C16(t *testing.T) {
	ie1 := entities.NewInfoElement("sourceTransportPort", 7, entities.Unsigned16, 0, 2)
	ie2 := entities.NewInfoElement("sourceIPv4Address", 8, entities.Ipv4Address, 0, 4)
	ie3 := entities.NewInfoElement("packetDeltaCount", 2, entities.Unsigned32, 0, 4)

	set := entities.NewSet(false)
	if err := set.PrepareSet(entities.Data, 256); err != nil {
		t.Fatal(err)
	}
	base := []entities.InfoElementWithValue{
		entities.NewUnsigned16InfoElement(ie1, 443),
		entities.NewIPAddressInfoElement(ie2, []byte{10, 0, 0, 1}),
	}
	if err := set.AddRecordWithExtraElements(base, 1, 256); err != nil {
		t.Fatal(err)
	}
	rec := set.GetRecords()[0]
	// use the spare capacity that was asked for
	if err := rec.AddInfoElement(entities.NewUnsigned32InfoElement(ie3, 7)); err != nil {
		t.Fatalf("extra element refused: %v", err)
	}
	if got := rec.GetFieldCount(); got != 3 {
		t.Fatalf("field count %d", got)
	}

	sum := entities.SetHeaderLen
	for _, r := range set.GetRecords() {
		if len(r.GetBuffer()) != r.GetRecordLength() {
			t.Errorf("record buffer has %d bytes, reported length %d", len(r.GetBuffer()), r.GetRecordLength())
		}
		sum += r.GetRecordLength()
	}
	if set.GetSetLength() != sum {
		t.Errorf("set reports length %d, but 4 + sum of its records' reported lengths is %d", set.GetSetLength(), sum)
	}

	set.UpdateLenInHeader()
	var msg []byte
	var err error
	panicked := func() (p interface{}) {
		defer func() { p = recover() }()
		msg, err = CreateIPFIXMsg(set, 1, 0, time.Unix(1700000000, 0))
		return nil
	}()
	if panicked != nil {
		t.Fatalf("CreateIPFIXMsg panicked on a set every operation on which was accepted: %v", panicked)
	}
	if err != nil {
		t.Fatalf("CreateIPFIXMsg: %v", err)
	}
	if n := len(msg) - entities.MsgHeaderLength; n != sum {
		t.Errorf("%d bytes serialized for the set, records need %d", n, sum)
	}
}

// The same through a real exporting process over tcp: the template has three
// fields, the data record is built from two elements plus one appended through
// the spare capacity.  SendSet's sanity checks accept it, then SendSet panics.
func TestFinding1C16_SendSet(t *testing.T) {
	ln, err := net.Listen("tcp", "127.0.0.1:0")
	if err != nil {
		t.Skipf("cannot listen: %v", err)
	}
	defer ln.Close()
	go func() {
		for {
			c, err := ln.Accept()
			if err != nil {
				return
			}
			go io.Copy(io.Discard, c)
		}
	}()
	ep, err := InitExportingProcess(ExporterInput{
		CollectorAddress:    ln.Addr().String(),
		CollectorProtocol:   "tcp",
		ObservationDomainID: 1,
	})
	if err != nil {
		t.Fatal(err)
	}
	defer ep.CloseConnToCollector()

	ies := []*entities.InfoElement{
		entities.NewInfoElement("sourceTransportPort", 7, entities.Unsigned16, 0, 2),
		entities.NewInfoElement("sourceIPv4Address", 8, entities.Ipv4Address, 0, 4),
		entities.NewInfoElement("packetDeltaCount", 2, entities.Unsigned32, 0, 4),
	}
	tid := ep.NewTemplateID()
	tset, err := entities.MakeTemplateSet(tid, ies)
	if err != nil {
		t.Fatal(err)
	}
	if _, err := ep.SendSet(tset); err != nil {
		t.Fatal(err)
	}

	set := entities.NewSet(false)
	if err := set.PrepareSet(entities.Data, tid); err != nil {
		t.Fatal(err)
	}
	base := []entities.InfoElementWithValue{
		entities.NewUnsigned16InfoElement(ies[0], 443),
		entities.NewIPAddressInfoElement(ies[1], []byte{10, 0, 0, 1}),
	}
	if err := set.AddRecordWithExtraElements(base, 1, tid); err != nil {
		t.Fatal(err)
	}
	if err := set.GetRecords()[0].AddInfoElement(entities.NewUnsigned32InfoElement(ies[2], 7)); err != nil {
		t.Fatal(err)
	}
	var n int
	panicked := func() (p interface{}) {
		defer func() { p = recover() }()
		n, err = ep.SendSet(set)
		return nil
	}()
	if panicked != nil {
		t.Fatalf("SendSet panicked: %v", panicked)
	}
	if err != nil {
		t.Fatalf("SendSet: %v", err)
	}
	if want := entities.MsgHeaderLength + entities.SetHeaderLen + 10; n != want {
		t.Fatalf("SendSet sent %d bytes, the message needs %d", n, want)
	}
}
