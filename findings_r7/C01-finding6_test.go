// Finding 6 for property C01 (CLEAN tree): a UDP collecting process configured with a
// MaxBufferSize smaller than an incoming message delivers the FRONT of the data set as if it
// were the whole set: 100 records are handed to the exporting process, a Message with 61
// records is delivered, no error is logged or returned anywhere. (The message header says
// 820 bytes, 512 were read; the header length is never compared with what was received, and
// the 4 bytes left after the 61st record are taken for set padding.)
//
// Place:  cp OUT/finding6_test.go WT/pkg/exporter/finding6_test.go
// Run:    cd WT && go test -count=1 -timeout 120s -run 'TestFinding6UDPTruncatedSetDelivered' ./pkg/exporter
//
// Clause violated: "the same number of records". What is delivered is neither the set that
// was given nor nothing: Message.GetMessageLen() of the delivered message still says 820.
//
// Why the input is legitimate: MaxBufferSize is a public knob of CollectorInput ("maximum
// buffer size to read the record") that operators set from their idea of the path MTU or a
// memory budget (512 is the RFC 7011 default MTU assumption quoted in exporter/process.go);
// the exporting process deliberately does not limit UDP messages to any MTU ("We are not
// honoring that", exporter/process.go) and accepts the 820-byte set. A collector that cannot
// take a message must drop it (and ideally say so) - it must not present a fragment as the
// exporter's set. Whether a given oversize message is dropped or delivered short depends on
// where the cut falls: with variable-length fields it is usually an error, with fixed-length
// records and a cut that leaves less than one record it is a silent short delivery.
package exporter_test

import (
	"testing"
	"time"

	"github.com/vmware/go-ipfix/pkg/collector"
	"github.com/vmware/go-ipfix/pkg/entities"
	"github.com/vmware/go-ipfix/pkg/exporter"
	"github.com/vmware/go-ipfix/pkg/registry"
)

func TestFinding6UDPTruncatedSetDelivered(t *testing.T) {
	registry.LoadRegistry()
	cp, err := collector.InitCollectingProcess(collector.CollectorInput{Address: "127.0.0.1:0", Protocol: "udp", MaxBufferSize: 512})
	if err != nil {
		t.Fatal(err)
	}
	go cp.Start()
	defer cp.Stop()
	for i := 0; i < 500 && cp.GetAddress() == nil; i++ {
		time.Sleep(10 * time.Millisecond)
	}
	if cp.GetAddress() == nil {
		t.Fatal("collector did not start")
	}
	ep, err := exporter.InitExportingProcess(exporter.ExporterInput{
		CollectorAddress:    cp.GetAddress().String(),
		CollectorProtocol:   "udp",
		ObservationDomainID: 7,
	})
	if err != nil {
		t.Fatal(err)
	}
	defer ep.CloseConnToCollector()

	const templateID = 256
	ie, err := registry.GetInfoElement("octetDeltaCount", registry.IANAEnterpriseID)
	if err != nil {
		t.Fatal(err)
	}
	tmplElem, _ := entities.DecodeAndCreateInfoElementWithValue(ie, nil)
	tmpl := entities.NewSet(false)
	if err := tmpl.PrepareSet(entities.Template, templateID); err != nil {
		t.Fatal(err)
	}
	if err := tmpl.AddRecord([]entities.InfoElementWithValue{tmplElem}, templateID); err != nil {
		t.Fatal(err)
	}
	if _, err := ep.SendSet(tmpl); err != nil {
		t.Fatal(err)
	}
	select {
	case <-cp.GetMsgChan():
	case <-time.After(3 * time.Second):
		t.Fatal("template not delivered")
	}

	for _, n := range []int{10, 100} { // 100-byte and 820-byte messages
		set := entities.NewSet(false)
		if err := set.PrepareSet(entities.Data, templateID); err != nil {
			t.Fatal(err)
		}
		for r := 0; r < n; r++ {
			if err := set.AddRecord([]entities.InfoElementWithValue{entities.NewUnsigned64InfoElement(ie, uint64(r+1))}, templateID); err != nil {
				t.Fatal(err)
			}
		}
		if _, err := ep.SendSet(set); err != nil {
			t.Fatalf("%d records: SendSet: %v", n, err)
		}
		select {
		case m := <-cp.GetMsgChan():
			if got := int(m.GetSet().GetNumberOfRecords()); got != n {
				t.Errorf("%d records handed to the exporting process, a set of %d records delivered (message header says %d bytes)", n, got, m.GetMessageLen())
			}
		case <-time.After(2 * time.Second):
			// Dropping a message that does not fit the configured buffer is acceptable.
			t.Logf("%d records: message not delivered (acceptable for a message larger than MaxBufferSize)", n)
		}
	}
}
