// FINDING 2 (property C05, clean tree): aggregateRecords dereferences a missing element and
// PANICS (crashing the worker goroutine and with it the whole process) when the record that
// created a flow lacks one of the configured NonStatsElements and a later record of the same
// flow carries it.
//
// Place:   copy to WT/pkg/intermediate/finding2_test.go
// Run:     cd WT && go test -count=1 -timeout 120s -run 'TestFinding2' ./pkg/intermediate
//
// Clause violated: "the aggregated record always carries the latest end time, each total
// counter's latest value, and in each reporting node's fields the sum of every delta counter ...;
// the common fields follow the node that reported the latest end time" - instead of an aggregated
// record (or at worst an error for the record) the library panics with a nil pointer dereference
// in aggregateRecords (existingIeWithValue is nil; pkg/intermediate/aggregate.go, cases
// "flowEndReason", "tcpState" and "httpVals" of the NonStatsElements loop).
//
// Why the input is legitimate: an inter-node flow is reported by two exporters (the source and
// the destination node), and nothing makes their templates equal. During a rolling upgrade the
// destination node still runs an agent whose template has no httpVals (that element was added
// to the Antrea registry later than the others), while the source node and the aggregator
// (NonStatsElements = flowEndSeconds, flowEndReason, tcpState, httpVals, as in the library's own
// tests) are already upgraded. Every step is accepted: the old node's record creates the flow
// without complaint (record creation never looks at NonStatsElements), the new node's record
// is a complete, valid record with a later end time. The same defect for correlate fields
// (nil dereference in correlateRecords) has been repaired in this tree; this is its twin.
// The test recovers the panic so that it shows up as a failure; in production nothing recovers
// it (worker.start runs the job on a bare goroutine).
package intermediate_test

import (
	"net"
	"strings"
	"testing"
	"time"

	"github.com/vmware/go-ipfix/pkg/entities"
	"github.com/vmware/go-ipfix/pkg/intermediate"
	"github.com/vmware/go-ipfix/pkg/registry"
)

func f2Elements() *intermediate.AggregationElements {
	stats := []string{"packetTotalCount", "packetDeltaCount", "octetTotalCount", "octetDeltaCount",
		"reversePacketTotalCount", "reversePacketDeltaCount", "reverseOctetTotalCount", "reverseOctetDeltaCount"}
	var src, dst []string
	for _, s := range stats {
		src = append(src, s+"FromSourceNode")
		dst = append(dst, s+"FromDestinationNode")
	}
	return &intermediate.AggregationElements{
		NonStatsElements:                   []string{"flowEndSeconds", "flowEndReason", "tcpState", "httpVals"},
		StatsElements:                      stats,
		AggregatedSourceStatsElements:      src,
		AggregatedDestinationStatsElements: dst,
		AntreaFlowEndSecondsElements:       []string{"flowEndSecondsFromSourceNode", "flowEndSecondsFromDestinationNode"},
		ThroughputElements:                 []string{"throughput", "reverseThroughput"},
		SourceThroughputElements:           []string{"throughputFromSourceNode", "reverseThroughputFromSourceNode"},
		DestinationThroughputElements:      []string{"throughputFromDestinationNode", "reverseThroughputFromDestinationNode"},
	}
}

func f2IE(t testing.TB, name string) *entities.InfoElement {
	for _, en := range []uint32{registry.IANAEnterpriseID, registry.IANAReversedEnterpriseID, registry.AntreaEnterpriseID} {
		if ie, err := registry.GetInfoElement(name, en); err == nil {
			return ie
		}
	}
	t.Fatalf("element %s not in the registries", name)
	return nil
}

// f2Message builds a message with one record of the inter-node flow 10.0.0.1:1234 -> 10.0.0.2:80/tcp
// as the collector delivers it. fromSrc selects the reporting node; withHTTPVals says whether
// the node's template has the httpVals element.
func f2Message(t testing.TB, fromSrc, withHTTPVals bool, start, end uint32, total, delta uint64) *entities.Message {
	srcPod, dstPod := "podA", ""
	if !fromSrc {
		srcPod, dstPod = "", "podB"
	}
	el := []entities.InfoElementWithValue{
		entities.NewIPAddressInfoElement(f2IE(t, "sourceIPv4Address"), net.ParseIP("10.0.0.1").To4()),
		entities.NewIPAddressInfoElement(f2IE(t, "destinationIPv4Address"), net.ParseIP("10.0.0.2").To4()),
		entities.NewUnsigned16InfoElement(f2IE(t, "sourceTransportPort"), 1234),
		entities.NewUnsigned16InfoElement(f2IE(t, "destinationTransportPort"), 80),
		entities.NewUnsigned8InfoElement(f2IE(t, "protocolIdentifier"), 6),
		entities.NewStringInfoElement(f2IE(t, "sourcePodName"), srcPod),
		entities.NewStringInfoElement(f2IE(t, "destinationPodName"), dstPod),
		entities.NewUnsigned8InfoElement(f2IE(t, "flowType"), registry.FlowTypeInterNode),
		entities.NewDateTimeSecondsInfoElement(f2IE(t, "flowStartSeconds"), start),
		entities.NewDateTimeSecondsInfoElement(f2IE(t, "flowEndSeconds"), end),
		entities.NewUnsigned8InfoElement(f2IE(t, "flowEndReason"), registry.ActiveTimeoutReason),
		entities.NewStringInfoElement(f2IE(t, "tcpState"), "ESTABLISHED"),
	}
	if withHTTPVals {
		el = append(el, entities.NewStringInfoElement(f2IE(t, "httpVals"), `{"1":"{hostname:10.10.0.1,url:/public/,status:200}"}`))
	}
	for _, s := range f2Elements().StatsElements {
		v := total
		if strings.Contains(s, "Delta") {
			v = delta
		}
		el = append(el, entities.NewUnsigned64InfoElement(f2IE(t, s), v))
	}
	set := entities.NewSet(true)
	if err := set.PrepareSet(entities.Data, 256); err != nil {
		t.Fatal(err)
	}
	if err := set.AddRecord(el, 256); err != nil {
		t.Fatal(err)
	}
	m := entities.NewMessage(true)
	m.SetVersion(10)
	m.SetObsDomainID(1)
	m.SetExportAddress("127.0.0.1")
	m.AddSet(set)
	return m
}

func TestFinding2_LaterRecordCarriesNonStatsElementTheFirstLacked(t *testing.T) {
	registry.LoadRegistry()
	ap, err := intermediate.InitAggregationProcess(intermediate.AggregationInput{
		MessageChan:           make(chan *entities.Message),
		WorkerNum:             1,
		CorrelateFields:       []string{"sourcePodName", "destinationPodName"},
		AggregateElements:     f2Elements(),
		ActiveExpiryTimeout:   time.Hour,
		InactiveExpiryTimeout: time.Hour,
	})
	if err != nil {
		t.Fatal(err)
	}
	// Destination node, old agent: template without httpVals. Accepted, creates the flow.
	if err := ap.AggregateMsgByFlowKey(f2Message(t, false, false, 100, 110, 10, 10)); err != nil {
		t.Fatalf("first record refused: %v", err)
	}
	// Source node, new agent: the same flow, later end time, template with httpVals.
	var panicked interface{}
	func() {
		defer func() { panicked = recover() }()
		err = ap.AggregateMsgByFlowKey(f2Message(t, true, true, 100, 112, 12, 12))
	}()
	if panicked != nil {
		t.Fatalf("AggregateMsgByFlowKey panicked on a valid record of an existing flow: %v", panicked)
	}
	if err != nil {
		t.Fatalf("second record refused: %v", err)
	}
	key := &intermediate.FlowKey{SourceAddress: "10.0.0.1", DestinationAddress: "10.0.0.2", Protocol: 6, SourcePort: 1234, DestinationPort: 80}
	recs := ap.GetRecords(key)
	if len(recs) != 1 {
		t.Fatalf("%d records for the flow", len(recs))
	}
	got := recs[0]
	for k, w := range map[string]interface{}{
		"flowEndSeconds":                      uint32(112),
		"packetTotalCount":                    uint64(12),
		"packetDeltaCount":                    uint64(12),
		"packetDeltaCountFromSourceNode":      uint64(12),
		"packetDeltaCountFromDestinationNode": uint64(10),
		"throughputFromSourceNode":            uint64(8),
	} {
		if got[k] != w {
			t.Errorf("%s = %v, want %v", k, got[k], w)
		}
	}
}
