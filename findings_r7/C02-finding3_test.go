// Finding 3 for property C02 on the CLEAN tree: several records in one data set built from the
// same element objects.
//
// Place:   cp OUT/finding3_test.go WT/pkg/exporter/finding3_test.go
// Run:     cd WT && go test -count=1 -timeout 120s -run 'TestFinding3C02' ./pkg/exporter
//
// Clause violated: "data records carry each field ... length-prefixed (1 byte below 255 ...) for
// variable-length elements" / the set must be decodable with its template.
// Input: the exporter keeps one slice of element objects (the allocation-free pattern the API is
// designed for: Set...Value on long-lived elements, AddRecord, repeat), but batches TWO records
// into one data set before SendSet: set values of flow 1, AddRecord, set values of flow 2,
// AddRecord, SendSet. All calls succeed and SendSet returns no error.
// AddRecord computes the record length from the values at the time of the call but keeps only
// pointers to the elements; the bytes are produced lazily in SendSet (dataRecord.GetBuffer), from
// the values the shared elements hold THEN. With variable-length fields of different lengths
// ("pod-a" then "pod-bbbbbbbb") record 1 has 8 octets reserved, the encoder needs 15, logs
// "buffer size is not enough for encoding" (klog only, no error to the caller) and leaves the
// record as 8 zero octets. The message that goes out has consistent header and set lengths but
// its content is NOT a sequence of records of the template: an independent decoder reads three
// bogus records out of the zero octets and then a length prefix that points beyond the set.
// Expected: two well-formed records (the values at the time of each AddRecord), or a refusal.
package exporter_test

import (
	"encoding/binary"
	"fmt"
	"io"
	"net"
	"testing"
	"time"

	"github.com/vmware/go-ipfix/pkg/entities"
	"github.com/vmware/go-ipfix/pkg/exporter"
	"github.com/vmware/go-ipfix/pkg/registry"
)

type f3Field struct {
	id  uint16
	len uint16
	pen uint32
}

// f3Peer is a tcp peer that hands over whole messages as framed by the header length.
type f3Peer struct {
	ln   net.Listener
	msgs chan []byte
}

func f3NewPeer(t *testing.T) *f3Peer {
	ln, err := net.Listen("tcp", "127.0.0.1:0")
	if err != nil {
		t.Fatal(err)
	}
	p := &f3Peer{ln: ln, msgs: make(chan []byte, 64)}
	go func() {
		c, err := ln.Accept()
		if err != nil {
			return
		}
		defer c.Close()
		for {
			hdr := make([]byte, 16)
			if _, err := io.ReadFull(c, hdr); err != nil {
				return
			}
			l := int(binary.BigEndian.Uint16(hdr[2:4]))
			if l < 16 {
				p.msgs <- hdr
				return
			}
			rest := make([]byte, l-16)
			if _, err := io.ReadFull(c, rest); err != nil {
				return
			}
			p.msgs <- append(hdr, rest...)
		}
	}()
	return p
}

func (p *f3Peer) next(t *testing.T) []byte {
	t.Helper()
	select {
	case m := <-p.msgs:
		return m
	case <-time.After(5 * time.Second):
		t.Fatalf("no message arrived at the peer")
	}
	return nil
}

// f3Envelope checks the message header and the single set; returns set id and set body.
func f3Envelope(msg []byte) (uint16, []byte, error) {
	if len(msg) < 20 {
		return 0, nil, fmt.Errorf("message of %d bytes", len(msg))
	}
	if v := binary.BigEndian.Uint16(msg[0:2]); v != 10 {
		return 0, nil, fmt.Errorf("version %d", v)
	}
	if l := int(binary.BigEndian.Uint16(msg[2:4])); l != len(msg) {
		return 0, nil, fmt.Errorf("header length %d, %d bytes sent", l, len(msg))
	}
	setID := binary.BigEndian.Uint16(msg[16:18])
	if l := int(binary.BigEndian.Uint16(msg[18:20])); l != len(msg)-16 {
		return 0, nil, fmt.Errorf("set length %d does not cover the %d remaining bytes", l, len(msg)-16)
	}
	return setID, msg[20:], nil
}

// f3ParseTemplate decodes one template record that must fill the whole set body.
func f3ParseTemplate(body []byte) (uint16, []f3Field, error) {
	if len(body) < 4 {
		return 0, nil, fmt.Errorf("short template record")
	}
	id := binary.BigEndian.Uint16(body[0:2])
	n := int(binary.BigEndian.Uint16(body[2:4]))
	off := 4
	fields := make([]f3Field, 0, n)
	for i := 0; i < n; i++ {
		if off+4 > len(body) {
			return 0, nil, fmt.Errorf("template record truncated in field specifier %d", i)
		}
		f := f3Field{id: binary.BigEndian.Uint16(body[off:]), len: binary.BigEndian.Uint16(body[off+2:])}
		off += 4
		if f.id&0x8000 != 0 {
			if off+4 > len(body) {
				return 0, nil, fmt.Errorf("template record truncated in the enterprise number of field specifier %d", i)
			}
			f.id &= 0x7fff
			f.pen = binary.BigEndian.Uint32(body[off:])
			off += 4
		}
		fields = append(fields, f)
	}
	if off != len(body) {
		return 0, nil, fmt.Errorf("%d stray bytes after the template record", len(body)-off)
	}
	return id, fields, nil
}

// f3ParseData walks the set body with the template; returns the raw field values per record.
func f3ParseData(body []byte, fields []f3Field) ([][][]byte, error) {
	var recs [][][]byte
	off := 0
	for off < len(body) {
		var rec [][]byte
		for i, f := range fields {
			l := int(f.len)
			if f.len == 65535 {
				if off+1 > len(body) {
					return recs, fmt.Errorf("record %d field %d: no room for the length prefix", len(recs), i)
				}
				l = int(body[off])
				off++
				if l == 255 {
					if off+2 > len(body) {
						return recs, fmt.Errorf("record %d field %d: no room for the long length prefix", len(recs), i)
					}
					l = int(binary.BigEndian.Uint16(body[off:]))
					off += 2
				}
			}
			if off+l > len(body) {
				return recs, fmt.Errorf("record %d field %d: %d bytes announced, %d left in the set", len(recs), i, l, len(body)-off)
			}
			rec = append(rec, body[off:off+l])
			off += l
		}
		recs = append(recs, rec)
	}
	return recs, nil
}

func f3NewExporter(t *testing.T, p *f3Peer) *exporter.ExportingProcess {
	t.Helper()
	exp, err := exporter.InitExportingProcess(exporter.ExporterInput{
		CollectorAddress: p.ln.Addr().String(), CollectorProtocol: "tcp", ObservationDomainID: 7,
	})
	if err != nil {
		t.Fatal(err)
	}
	return exp
}

// f3SendTemplate sends a template through the public API and returns the field specifiers an
// independent decoder reads from the wire.
func f3SendTemplate(t *testing.T, exp *exporter.ExportingProcess, p *f3Peer, tid uint16, ies []*entities.InfoElement) ([]f3Field, error) {
	t.Helper()
	tset, err := entities.MakeTemplateSet(tid, ies)
	if err != nil {
		t.Fatalf("MakeTemplateSet: %v", err)
	}
	if _, err := exp.SendSet(tset); err != nil {
		t.Fatalf("SendSet(template): %v", err)
	}
	msg := p.next(t)
	setID, body, err := f3Envelope(msg)
	if err != nil {
		return nil, fmt.Errorf("template message % x: %v", msg, err)
	}
	if setID != 2 {
		return nil, fmt.Errorf("template message % x: set id %d", msg, setID)
	}
	gotID, fields, err := f3ParseTemplate(body)
	if err != nil {
		return nil, fmt.Errorf("template set % x: %v", body, err)
	}
	if gotID != tid || len(fields) != len(ies) {
		return nil, fmt.Errorf("template set % x: id %d with %d fields, want id %d with %d fields", body, gotID, len(fields), tid, len(ies))
	}
	return fields, nil
}

func TestFinding3C02_TwoRecordsFromSharedElements(t *testing.T) {
	registry.LoadRegistry()
	podIE, err := registry.GetInfoElement("sourcePodName", registry.AntreaEnterpriseID)
	if err != nil {
		t.Fatal(err)
	}
	portIE, err := registry.GetInfoElement("sourceTransportPort", registry.IANAEnterpriseID)
	if err != nil {
		t.Fatal(err)
	}
	p := f3NewPeer(t)
	defer p.ln.Close()
	exp := f3NewExporter(t, p)
	defer exp.CloseConnToCollector()
	tid := exp.NewTemplateID()
	fields, err := f3SendTemplate(t, exp, p, tid, []*entities.InfoElement{podIE, portIE})
	if err != nil {
		t.Fatal(err)
	}

	pod := entities.NewStringInfoElement(podIE, "")
	port := entities.NewUnsigned16InfoElement(portIE, 0)
	elems := []entities.InfoElementWithValue{pod, port}

	dset := entities.NewSet(false)
	if err := dset.PrepareSet(entities.Data, tid); err != nil {
		t.Fatal(err)
	}
	pod.SetStringValue("pod-a")
	port.SetUnsigned16Value(80)
	if err := dset.AddRecord(elems, tid); err != nil {
		t.Fatal(err)
	}
	pod.SetStringValue("pod-bbbbbbbb")
	port.SetUnsigned16Value(443)
	if err := dset.AddRecord(elems, tid); err != nil {
		t.Logf("refused (acceptable): %v", err)
		return
	}
	if _, err := exp.SendSet(dset); err != nil {
		t.Logf("refused (acceptable): %v", err)
		return
	}
	msg := p.next(t)
	setID, body, err := f3Envelope(msg)
	if err != nil || setID != tid {
		t.Fatalf("data message % x: set id %d, %v", msg, setID, err)
	}
	recs, err := f3ParseData(body, fields)
	if err != nil {
		t.Fatalf("data set % x cannot be decoded with the template: %v", body, err)
	}
	if len(recs) != 2 {
		t.Fatalf("data set % x decodes to %d records, want 2", body, len(recs))
	}
	if string(recs[0][0]) != "pod-a" || binary.BigEndian.Uint16(recs[0][1]) != 80 ||
		string(recs[1][0]) != "pod-bbbbbbbb" || binary.BigEndian.Uint16(recs[1][1]) != 443 {
		t.Fatalf("data set % x decodes to %q, want (pod-a, 80) and (pod-bbbbbbbb, 443)", body, recs)
	}
}
