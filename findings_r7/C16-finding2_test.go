// Finding 2 for property C16 (CLEAN tree): the add paths are not equivalent on
// template sets - AddRecord / AddRecordWithExtraElements refuse an element list
// that AddRecordV2 accepts (and the refusal depends on the VALUES the elements
// happen to hold).
//
// Place at:  WT/pkg/entities/finding2_test.go
// Run with:  cd WT && go test -count=1 -timeout 120s -run 'TestFinding2C16' ./pkg/entities
//
// Clause violated: "The three ways of adding a record (copying, with spare
// capacity, and slice-adopting) produce byte-identical sets ... for any sequence
// of prepare/add/reset operations on template and data sets" with arbitrary
// element lists.
//
// Why the input is legitimate: applications keep ONE list of element objects
// per template and reuse it for the life of the process (the reuse pattern the
// property is about): the template set is built from the list, then values are
// set on the same objects for every data record.  When the template has to be
// sent again (new tcp connection, application-driven refresh) the objects still
// hold the values of the last record.  templateRecord.AddInfoElement (used by
// the copying paths) refuses such an element ("template record cannot take
// element ... with non-empty value"), NewTemplateRecordFromElements (used by
// AddRecordV2) has no such check and builds the template.  Whether the copying
// path refuses even depends on the data: a list whose last record happened to
// be all zeros / empty strings is accepted.  FAILS on the clean tree.
package entities

import (
	"bytes"
	"testing"
)

func TestFinding2C16(t *testing.T) {
	ie1 := NewInfoElement("sourceTransportPort", 7, Unsigned16, 0, 2)
	ie2 := NewInfoElement("interfaceName", 82, String, 0, VariableLength)
	// the application's long-lived element objects
	elements := []InfoElementWithValue{
		NewUnsigned16InfoElement(ie1, 0),
		NewStringInfoElement(ie2, ""),
	}
	build := func(name string) (Set, error) {
		s := NewSet(false)
		if err := s.PrepareSet(Template, 256); err != nil {
			t.Fatal(err)
		}
		var err error
		switch name {
		case "AddRecord":
			err = s.AddRecord(elements, 256)
		case "AddRecordWithExtraElements":
			err = s.AddRecordWithExtraElements(elements, 2, 256)
		case "AddRecordV2":
			err = s.AddRecordV2(elements, 256)
		}
		return s, err
	}
	serialize := func(s Set) []byte {
		s.UpdateLenInHeader()
		out := append([]byte{}, s.GetHeaderBuffer()...)
		for _, r := range s.GetRecords() {
			out = append(out, r.GetBuffer()...)
		}
		return out
	}
	names := []string{"AddRecord", "AddRecordWithExtraElements", "AddRecordV2"}

	// 1. first template: all three paths agree
	var first []byte
	for _, n := range names {
		s, err := build(n)
		if err != nil {
			t.Fatalf("%s refused the fresh template: %v", n, err)
		}
		if first == nil {
			first = serialize(s)
		} else if !bytes.Equal(first, serialize(s)) {
			t.Fatalf("%s: template bytes differ", n)
		}
	}

	// 2. a data record is filled in through the same objects
	elements[0].SetUnsigned16Value(443)
	elements[1].SetStringValue("eth0")
	ds := NewSet(false)
	if err := ds.PrepareSet(Data, 256); err != nil {
		t.Fatal(err)
	}
	if err := ds.AddRecord(elements, 256); err != nil {
		t.Fatal(err)
	}

	// 3. the template is needed again: the three paths must still agree
	results := map[string][]byte{}
	errs := map[string]error{}
	for _, n := range names {
		s, err := build(n)
		errs[n] = err
		if err == nil {
			results[n] = serialize(s)
			if s.GetSetLength() != len(results[n]) {
				t.Errorf("%s: set length %d, %d bytes serialized", n, s.GetSetLength(), len(results[n]))
			}
		}
	}
	for _, n := range names[:2] {
		if (errs[n] == nil) != (errs["AddRecordV2"] == nil) {
			t.Errorf("add paths diverge on the same template set and element list: %s -> error %v, AddRecordV2 -> error %v (set of %d bytes)",
				n, errs[n], errs["AddRecordV2"], len(results["AddRecordV2"]))
		} else if !bytes.Equal(results[n], results["AddRecordV2"]) {
			t.Errorf("%s and AddRecordV2 built different sets", n)
		}
	}
}
