// Finding 4 for property C01 (CLEAN tree): a data Set that is sent again after the
// application updated the values of its elements goes out with the OLD values. The first
// SendSet encodes each record into a buffer cached inside the record
// (dataRecord.GetBuffer: `if len(d.buffer) == d.len ... return d.buffer`); every later
// SendSet of that set re-sends the cached bytes as long as the encoded length is unchanged
// (always, for fixed-length elements), whatever the elements hold by then.
//
// Place:  cp OUT/finding4_test.go WT/pkg/exporter/finding4_test.go
// Run:    cd WT && go test -count=1 -timeout 120s -run 'TestFinding4ResendUpdatedSet' ./pkg/exporter
//
// Clause violated: "every field value bit-identical": at the second and third SendSet the
// records the application hands over hold 2000 and 3000 (GetOrderedElementList() of the
// very set passed to SendSet says so); the collecting process delivers 1000 three times.
//
// Why the input is legitimate: this is the allocation-free way of exporting a fixed group of
// counters periodically - build the set and its elements once, then per interval
// Set...Value() on the elements and SendSet(set). Every call is accepted without error;
// InfoElementWithValue has public setters precisely so that elements can be re-used, the
// record keeps the element objects (not copies), and nothing in the API says that a Set
// can be sent only once or that SendSet freezes the values. The same happens when a set is
// re-sent to a second exporting process (fail-over to another collector) after an update.
// Note that before the first SendSet updates ARE honoured (nothing is cached yet), so the
// behaviour is not even consistent.
package exporter_test

import (
	"testing"
	"time"

	"github.com/vmware/go-ipfix/pkg/collector"
	"github.com/vmware/go-ipfix/pkg/entities"
	"github.com/vmware/go-ipfix/pkg/exporter"
	"github.com/vmware/go-ipfix/pkg/registry"
)

func TestFinding4ResendUpdatedSet(t *testing.T) {
	registry.LoadRegistry()
	cp, err := collector.InitCollectingProcess(collector.CollectorInput{Address: "127.0.0.1:0", Protocol: "tcp"})
	if err != nil {
		t.Fatal(err)
	}
	go cp.Start()
	defer cp.Stop()
	for i := 0; i < 500 && cp.GetAddress() == nil; i++ {
		time.Sleep(10 * time.Millisecond)
	}
	if cp.GetAddress() == nil {
		t.Fatal("collector did not start")
	}
	ep, err := exporter.InitExportingProcess(exporter.ExporterInput{
		CollectorAddress:    cp.GetAddress().String(),
		CollectorProtocol:   "tcp",
		ObservationDomainID: 7,
	})
	if err != nil {
		t.Fatal(err)
	}
	defer ep.CloseConnToCollector()

	const templateID = 256
	portIE, err := registry.GetInfoElement("sourceTransportPort", registry.IANAEnterpriseID)
	if err != nil {
		t.Fatal(err)
	}
	octetsIE, err := registry.GetInfoElement("octetDeltaCount", registry.IANAEnterpriseID)
	if err != nil {
		t.Fatal(err)
	}
	t1, _ := entities.DecodeAndCreateInfoElementWithValue(portIE, nil)
	t2, _ := entities.DecodeAndCreateInfoElementWithValue(octetsIE, nil)
	tmpl := entities.NewSet(false)
	if err := tmpl.PrepareSet(entities.Template, templateID); err != nil {
		t.Fatal(err)
	}
	if err := tmpl.AddRecord([]entities.InfoElementWithValue{t1, t2}, templateID); err != nil {
		t.Fatal(err)
	}
	if _, err := ep.SendSet(tmpl); err != nil {
		t.Fatal(err)
	}
	select {
	case <-cp.GetMsgChan():
	case <-time.After(3 * time.Second):
		t.Fatal("template not delivered")
	}

	// Built once ...
	port := entities.NewUnsigned16InfoElement(portIE, 443)
	octets := entities.NewUnsigned64InfoElement(octetsIE, 0)
	set := entities.NewSet(false)
	if err := set.PrepareSet(entities.Data, templateID); err != nil {
		t.Fatal(err)
	}
	if err := set.AddRecord([]entities.InfoElementWithValue{port, octets}, templateID); err != nil {
		t.Fatal(err)
	}
	// ... exported once per interval with the counter brought up to date.
	for interval := 1; interval <= 3; interval++ {
		given := uint64(1000 * interval)
		octets.SetUnsigned64Value(given)
		if got := set.GetRecords()[0].GetOrderedElementList()[1].GetUnsigned64Value(); got != given {
			t.Fatalf("the set handed to SendSet holds %d, not %d", got, given)
		}
		if _, err := ep.SendSet(set); err != nil {
			t.Fatalf("interval %d: SendSet: %v", interval, err)
		}
		select {
		case m := <-cp.GetMsgChan():
			recs := m.GetSet().GetRecords()
			if len(recs) != 1 {
				t.Fatalf("interval %d: %d records delivered", interval, len(recs))
			}
			if got := recs[0].GetOrderedElementList()[1].GetUnsigned64Value(); got != given {
				t.Errorf("interval %d: octetDeltaCount=%d handed to the exporting process, %d delivered", interval, given, got)
			}
		case <-time.After(3 * time.Second):
			t.Fatalf("interval %d: nothing delivered", interval)
		}
	}
}
