// FINDING 3 (property C06) - fails on the CLEAN tree.
//
// Place at:  WT/pkg/intermediate/finding3_test.go
// Run with:  cd WT && go test -count=1 -timeout 120s -run 'TestFinding3' ./pkg/intermediate
//
// Clause violated: "A flow record is handed to the expiry callback exactly when its active
// deadline ... or its inactive deadline ... has passed, earliest deadline first; inactive
// expiry removes the flow" - for every flow OTHER than the one whose export fails.
//
// Input: two ordinary flows A (created first) and B; an expiry callback that fails for A
// every time it is asked (and succeeds for B). A persistent per-flow failure is the normal
// kind: the callback of a flow aggregator returns the error of
// ResetStatAndThroughputElementsInRecord / of building the export record, and that error is
// a property of the flow's record (an exporter whose template lacks one of the configured
// elements), so it comes back at every attempt. Every step is accepted by the library.
//
// Observed: ForAllExpiredFlowRecordsDo puts A back with its deadlines unchanged and returns at
// once. A's deadline stays the earliest in the queue for ever, so every later scan pops A
// first, fails and returns: B, whose active deadline and later whose inactive deadline have
// long passed, is never handed to the callback and never removed (GetNumFlows stays 2, and so
// would every other flow that arrives from then on: the map grows without bound while
// GetExpiryFromExpirePriorityQueue advertises the minimum for ever). One flow that cannot be
// exported stops the expiry of all flows.
//
// Expected from the statement: a callback failure on A is one of the quantified events; it may
// keep A scheduled, but B's passed deadlines still have to lead to B's callback and, after its
// inactive deadline, to its removal.
//
// Public API only.
package intermediate

import (
	"fmt"
	"net"
	"testing"
	"time"

	"github.com/vmware/go-ipfix/pkg/entities"
	"github.com/vmware/go-ipfix/pkg/registry"
)

func finding3Msg(t *testing.T, srcPort uint16) *entities.Message {
	t.Helper()
	registry.LoadRegistry()
	mk := func(name string, ent uint32) *entities.InfoElement {
		ie, err := registry.GetInfoElement(name, ent)
		if err != nil {
			t.Fatal(err)
		}
		return ie
	}
	elements := []entities.InfoElementWithValue{
		entities.NewIPAddressInfoElement(mk("sourceIPv4Address", 0), net.ParseIP("10.0.0.1").To4()),
		entities.NewIPAddressInfoElement(mk("destinationIPv4Address", 0), net.ParseIP("10.0.0.2").To4()),
		entities.NewUnsigned16InfoElement(mk("sourceTransportPort", 0), srcPort),
		entities.NewUnsigned16InfoElement(mk("destinationTransportPort", 0), 80),
		entities.NewUnsigned8InfoElement(mk("protocolIdentifier", 0), 6),
		entities.NewUnsigned8InfoElement(mk("flowType", registry.AntreaEnterpriseID), registry.FlowTypeIntraNode),
	}
	set := entities.NewSet(false)
	if err := set.PrepareSet(entities.Data, 256); err != nil {
		t.Fatal(err)
	}
	if err := set.AddRecord(elements, 256); err != nil {
		t.Fatal(err)
	}
	msg := entities.NewMessage(false)
	msg.AddSet(set)
	return msg
}

func TestFinding3OneFailingFlowStarvesAllOthers(t *testing.T) {
	const (
		active   = 30 * time.Millisecond
		inactive = 120 * time.Millisecond
	)
	ch := make(chan *entities.Message)
	ap, err := InitAggregationProcess(AggregationInput{
		MessageChan:           ch,
		WorkerNum:             1,
		ActiveExpiryTimeout:   active,
		InactiveExpiryTimeout: inactive,
	})
	if err != nil {
		t.Fatal(err)
	}
	const portA, portB = 1111, 2222
	if err := ap.AggregateMsgByFlowKey(finding3Msg(t, portA)); err != nil {
		t.Fatal(err)
	}
	time.Sleep(2 * time.Millisecond)
	if err := ap.AggregateMsgByFlowKey(finding3Msg(t, portB)); err != nil {
		t.Fatal(err)
	}

	callsA, callsB := 0, 0
	cb := func(key FlowKey, rec *AggregationFlowRecord) error {
		if key.SourcePort == portA {
			callsA++
			return fmt.Errorf("record of flow A cannot be exported")
		}
		callsB++
		return nil
	}
	// Scan every 10 ms for 300 ms: B's active deadline passes after 32 ms, its inactive
	// deadline after 122 ms.
	start := time.Now()
	scans := 0
	for time.Since(start) < 300*time.Millisecond {
		time.Sleep(10 * time.Millisecond)
		_ = ap.ForAllExpiredFlowRecordsDo(cb) // the error for A is expected
		scans++
	}
	t.Logf("%d scans in %v: callback asked %d times for A (failing), %d times for B; flows held %d",
		scans, time.Since(start).Round(time.Millisecond), callsA, callsB, ap.GetNumFlows())
	if callsB == 0 {
		t.Errorf("flow B was never handed to the expiry callback although its active deadline passed %v ago and its inactive deadline %v ago",
			(time.Since(start) - active).Round(time.Millisecond), (time.Since(start) - inactive).Round(time.Millisecond))
	}
	held := ap.GetRecords(&FlowKey{SourcePort: portB})
	if len(held) != 0 {
		t.Errorf("flow B is still held %v after its inactive deadline: inactive expiry never removed it", (time.Since(start) - inactive).Round(time.Millisecond))
	}
}
