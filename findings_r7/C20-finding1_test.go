// Finding 1 for property C20 (part B, round 7) - fails on the CLEAN tree.
//
// Place:   copy to WT/cmd/collector/finding1_test.go   (package main, in-package test)
// Run:     cd WT && go test -count=1 -timeout 120s -run 'TestFinding1' ./cmd/collector
//
// Clause violated: "Every field of every record of a message appears, by element name and value,
// in that message's rendered entry."
//
// Input: an exporter connects over tcp (the binary's default transport) and sends a template whose
// field specifiers give a length that differs from the length in the library's registry:
//   (a) octetDeltaCount and packetDeltaCount (unsigned64 in the registry) declared with length 4:
//       reduced-size encoding, RFC 7011 section 6.2 - what most router exporters do for counters;
//   (b) interfaceName (string, variable length in the registry) declared with the fixed length 8 -
//       what most router exporters do for names.
// Both templates and both data messages are accepted and stored (nothing is refused, the
// connection stays open). The collecting process takes the element from the registry and ignores
// the field length of the template (pkg/collector/process.go, decodeField: elementLength is only
// used for unknown elements), so the data records are cut at the registry's lengths:
//   (a) two records {1234, 5} and {99, 7} are rendered as ONE record
//       octetDeltaCount: 5299989643269 (=1234<<32|5), packetDeltaCount: 425201762311 (=99<<32|7);
//       a single such record is taken for padding and the entry shows no record at all;
//   (b) the first byte of each name is taken for a length prefix: twenty records
//       {ingressInterface i, interfaceName "eth<i>" NUL-padded to 8 bytes} are rendered as six
//       records with garbage values (with fewer records in the set the message is refused as
//       truncated and the tcp connection is closed instead).
// Also the template entries show "len=8" / "len=65535" where the message said 4 / 8.
//
// Why legitimate: each step is an ordinary RFC 7011 message that the collector accepts; the
// standalone collector exists to show what arbitrary exporters send; the values rendered are
// silently wrong (no error, no log line).
package main

import (
	"encoding/binary"
	"encoding/json"
	"net"
	"net/http"
	"net/http/httptest"
	"strconv"
	"strings"
	"testing"
	"time"

	"github.com/vmware/go-ipfix/pkg/collector"
	"github.com/vmware/go-ipfix/pkg/registry"
)

func f1StoreLen() int {
	mutex.Lock()
	defer mutex.Unlock()
	return len(flowRecords)
}

// f1Start runs the pipeline of run(): collecting process with run()'s parameters (ephemeral
// port), every delivered message goes to addIPFIXMessage.
func f1Start(t *testing.T) net.Conn {
	registry.LoadRegistry()
	mutex.Lock()
	flowRecords = nil
	mutex.Unlock()
	cp, err := collector.InitCollectingProcess(collector.CollectorInput{
		Address:       "127.0.0.1:0",
		Protocol:      "tcp",
		MaxBufferSize: 65535,
		TemplateTTL:   0,
	})
	if err != nil {
		t.Fatal(err)
	}
	go func() {
		go cp.Start()
		for message := range cp.GetMsgChan() {
			addIPFIXMessage(message)
		}
	}()
	deadline := time.Now().Add(10 * time.Second)
	for cp.GetAddress() == nil {
		if time.Now().After(deadline) {
			t.Fatal("collector did not start")
		}
		time.Sleep(5 * time.Millisecond)
	}
	conn, err := net.Dial("tcp", cp.GetAddress().String())
	if err != nil {
		t.Fatal(err)
	}
	t.Cleanup(func() {
		conn.Close()
		cp.Stop()
		mutex.Lock()
		flowRecords = nil
		mutex.Unlock()
	})
	return conn
}

func f1Message(seq uint32, setID uint16, body []byte) []byte {
	b := make([]byte, 16)
	binary.BigEndian.PutUint16(b[0:], 10)
	binary.BigEndian.PutUint16(b[2:], uint16(16+4+len(body)))
	binary.BigEndian.PutUint32(b[4:], 1700000000)
	binary.BigEndian.PutUint32(b[8:], seq)
	binary.BigEndian.PutUint32(b[12:], 1)
	b = binary.BigEndian.AppendUint16(b, setID)
	b = binary.BigEndian.AppendUint16(b, uint16(4+len(body)))
	return append(b, body...)
}

func f1U16(vs ...uint16) []byte {
	var b []byte
	for _, v := range vs {
		b = binary.BigEndian.AppendUint16(b, v)
	}
	return b
}

func f1U32(vs ...uint32) []byte {
	var b []byte
	for _, v := range vs {
		b = binary.BigEndian.AppendUint32(b, v)
	}
	return b
}

// f1SendAndWait writes one message and waits until the store has grown by one entry.
func f1SendAndWait(t *testing.T, conn net.Conn, msg []byte, what string) {
	want := f1StoreLen() + 1
	if _, err := conn.Write(msg); err != nil {
		t.Fatalf("%s: write: %v", what, err)
	}
	deadline := time.Now().Add(5 * time.Second)
	for f1StoreLen() < want {
		if time.Now().After(deadline) {
			t.Fatalf("%s: the message was not stored (refused by the collector?)", what)
		}
		time.Sleep(2 * time.Millisecond)
	}
}

func f1Records(t *testing.T) []string {
	rr := httptest.NewRecorder()
	flowRecordHandler(rr, httptest.NewRequest(http.MethodGet, "/records?format=json", nil))
	if rr.Code != http.StatusOK {
		t.Fatalf("GET /records: status %d", rr.Code)
	}
	var resp jsonResponse
	if err := json.Unmarshal(rr.Body.Bytes(), &resp); err != nil {
		t.Fatal(err)
	}
	return resp.FlowRecords
}

func TestFinding1ReducedSizeCounters(t *testing.T) {
	conn := f1Start(t)
	// template 256: octetDeltaCount(1) length 4, packetDeltaCount(2) length 4
	f1SendAndWait(t, conn, f1Message(0, 2, f1U16(256, 2, 1, 4, 2, 4)), "template")
	// two records: {1234, 5} {99, 7}
	f1SendAndWait(t, conn, f1Message(0, 256, f1U32(1234, 5, 99, 7)), "data")
	entries := f1Records(t)
	if len(entries) != 2 {
		t.Fatalf("%d entries stored, want 2", len(entries))
	}
	if !strings.Contains(entries[0], "octetDeltaCount: len=4 ") {
		t.Errorf("template entry does not show the field as the message declared it (length 4):\n%s", entries[0])
	}
	e := entries[1]
	for _, want := range []string{"DATA RECORD-0:", "DATA RECORD-1:", "octetDeltaCount: 1234 ", "packetDeltaCount: 5 ", "octetDeltaCount: 99 ", "packetDeltaCount: 7 "} {
		if !strings.Contains(e, want) {
			t.Errorf("data entry lacks %q", want)
		}
	}
	if t.Failed() {
		t.Logf("data entry as rendered:\n%s", e)
	}
}

func TestFinding1FixedLengthString(t *testing.T) {
	conn := f1Start(t)
	// template 257: ingressInterface(10) length 4, interfaceName(82) fixed length 8
	f1SendAndWait(t, conn, f1Message(0, 2, f1U16(257, 2, 10, 4, 82, 8)), "template")
	// 20 records: ingressInterface i, interfaceName "eth<i>" padded with NULs to 8 bytes
	var rec []byte
	for i := 0; i < 20; i++ {
		name := make([]byte, 8)
		copy(name, "eth"+strconv.Itoa(i))
		rec = append(rec, f1U32(uint32(i))...)
		rec = append(rec, name...)
	}
	f1SendAndWait(t, conn, f1Message(0, 257, rec), "data")
	entries := f1Records(t)
	if len(entries) != 2 {
		t.Fatalf("%d entries stored, want 2", len(entries))
	}
	if !strings.Contains(entries[0], "interfaceName: len=8 ") {
		t.Errorf("template entry does not show the field as the message declared it (length 8):\n%s", entries[0])
	}
	e := entries[1]
	for _, want := range []string{"DATA RECORD-0:", "DATA RECORD-19:", "ingressInterface: 3 ", "interfaceName: eth0", "ingressInterface: 19 ", "interfaceName: eth19"} {
		if !strings.Contains(e, want) {
			t.Errorf("data entry lacks %q", want)
		}
	}
	if t.Failed() {
		t.Logf("data entry as rendered:\n%q", e)
	}
}
