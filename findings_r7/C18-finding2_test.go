// FINDING 2 (property C18, clean tree): with TLS configured, InitExportingProcess reports
// success for CollectorProtocol "tcp4" / "tcp6" / "udp4" / "udp6" without contacting, let
// alone verifying, any collector; the process it returns has no connection and the first
// SendSet crashes the application with a nil-pointer panic.
//
// Place:   copy to WT/pkg/exporter/finding2_test.go
// Run:     cd WT && go test -count=1 -timeout 120s -run 'TestFinding2' ./pkg/exporter
// Result:  FAILS on the clean tree.
//
// Clause concerned: "With TLS configured an exporter completes a session only with a
// collector whose certificate chains to the configured CA ..." observed at "InitExportingProcess
// error": Init returns a usable-looking process and a nil error although nothing was verified
// (in this test nothing even listens on the address).  No message travels in plaintext - the
// caveat is stated in finding2.json - but the caller is told that the secured session exists,
// and the next call panics instead of returning an error.
//
// Why the input is legitimate: the same ExporterInput without TLSClientConfig is accepted and
// works ("tcp4" goes straight to net.Dial, see the control sub-test), ExporterInput has an
// IsIPv6 field that suggests the family can be chosen, and pinning the address family is the
// usual way to keep a dual-stack host name from resolving to the wrong family.  The TLS branch
// only looks for the literal strings "tcp" and "udp" and silently does nothing otherwise.
package exporter

import (
	"crypto/ecdsa"
	"crypto/elliptic"
	"crypto/rand"
	"crypto/x509"
	"crypto/x509/pkix"
	"encoding/pem"
	"fmt"
	"math/big"
	"net"
	"testing"
	"time"

	"github.com/vmware/go-ipfix/pkg/entities"
	"github.com/vmware/go-ipfix/pkg/registry"
)

func f2CAPEM(t *testing.T) []byte {
	key, err := ecdsa.GenerateKey(elliptic.P256(), rand.Reader)
	if err != nil {
		t.Fatal(err)
	}
	tmpl := &x509.Certificate{
		SerialNumber:          big.NewInt(1),
		Subject:               pkix.Name{CommonName: "finding2 CA"},
		NotBefore:             time.Now().Add(-time.Hour),
		NotAfter:              time.Now().Add(24 * time.Hour),
		IsCA:                  true,
		BasicConstraintsValid: true,
		KeyUsage:              x509.KeyUsageCertSign,
	}
	der, err := x509.CreateCertificate(rand.Reader, tmpl, tmpl, &key.PublicKey, key)
	if err != nil {
		t.Fatal(err)
	}
	return pem.EncodeToMemory(&pem.Block{Type: "CERTIFICATE", Bytes: der})
}

func f2TemplateSet(t *testing.T, id uint16) entities.Set {
	ie, err := registry.GetInfoElement("sourceIPv4Address", registry.IANAEnterpriseID)
	if err != nil {
		t.Fatal(err)
	}
	set, err := entities.MakeTemplateSet(id, []*entities.InfoElement{ie})
	if err != nil {
		t.Fatal(err)
	}
	return set
}

func TestFinding2_TLSConfiguredButNoSession(t *testing.T) {
	registry.LoadRegistry()

	// Control: the protocol name is accepted by the library when no TLS is configured.
	t.Run("control_plain_tcp4_works", func(t *testing.T) {
		l, err := net.Listen("tcp4", "127.0.0.1:0")
		if err != nil {
			t.Fatal(err)
		}
		defer l.Close()
		go func() {
			if c, err := l.Accept(); err == nil {
				defer c.Close()
				buf := make([]byte, 512)
				c.Read(buf)
			}
		}()
		ep, err := InitExportingProcess(ExporterInput{CollectorAddress: l.Addr().String(), CollectorProtocol: "tcp4", ObservationDomainID: 1})
		if err != nil {
			t.Fatalf("plain tcp4 refused: %v", err)
		}
		defer ep.CloseConnToCollector()
		if _, err := ep.SendSet(f2TemplateSet(t, ep.NewTemplateID())); err != nil {
			t.Fatalf("plain tcp4 send failed: %v", err)
		}
	})

	for _, proto := range []string{"tcp4", "udp4"} {
		t.Run("tls_configured_"+proto, func(t *testing.T) {
			// Reserve a port and release it: nothing listens there, so no collector
			// can possibly have been verified.
			l, err := net.Listen("tcp4", "127.0.0.1:0")
			if err != nil {
				t.Fatal(err)
			}
			addr := l.Addr().String()
			l.Close()

			ep, err := InitExportingProcess(ExporterInput{
				CollectorAddress:    addr,
				CollectorProtocol:   proto,
				ObservationDomainID: 1,
				TLSClientConfig:     &ExporterTLSClientConfig{CAData: f2CAPEM(t), ServerName: "collector.example"},
			})
			if err != nil {
				t.Logf("refused, as it must be: %v", err)
				return
			}
			t.Errorf("InitExportingProcess(%s, TLS configured, nobody listening) reported success: no collector was verified", proto)
			panicked := func() (p interface{}) {
				defer func() { p = recover() }()
				_, err := ep.SendSet(f2TemplateSet(t, ep.NewTemplateID()))
				t.Logf("SendSet returned err=%v", err)
				return nil
			}()
			if panicked != nil {
				t.Errorf("first SendSet on that process panicked: %s", fmt.Sprint(panicked))
			}
		})
	}
}
