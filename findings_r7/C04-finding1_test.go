// Finding 1 for property C04 (clean tree): a message that carries two data sets.
//
// Place:   copy to WT/pkg/collector/finding1_test.go
// Run:     cd WT && go test -count=1 -timeout 120s -run 'TestFinding1_' ./pkg/collector
// Result:  FAILS on the clean, unchanged tree.
//
// Clause violated: "A data set is decoded with the most recent valid template received for
// the same (observation domain, template id) and is rejected when there is none; ...
// templates with different ids never influence each other."
//
// decodePacket reads the first set header, ignores the set length it has just read and lets
// decodeDataSet consume everything up to the end of the message. Whatever follows the first
// data set - the header and the records of a second data set - is decoded as further
// records of the FIRST set's template and delivered without any error: the data set with
// id 257 (or with an id for which no template exists at all) is decoded with template 256.
//
// Why the input is legitimate: RFC 7011 section 3.1 defines a message as a header followed
// by one or more sets, and practically every exporter other than this library's own
// (YAF, nProbe, softflowd, ipfixprobe, Cisco/Juniper devices) packs several sets into one
// message. Each step is accepted by the collector; nothing is malformed. A test author is
// tempted to leave this out because entities.Message "supports only one set" (TODO in
// pkg/entities/message.go) - but the collector does not refuse such messages, it decodes
// them against the wrong template.
package collector

import (
	"encoding/binary"
	"fmt"
	"net"
	"testing"
	"time"

	"github.com/vmware/go-ipfix/pkg/entities"
	"github.com/vmware/go-ipfix/pkg/registry"
)

type f1Field struct {
	id  uint16
	len uint16
	pen uint32 // 0: IANA
}

// f1Msg builds one IPFIX message (RFC 7011, section 3.1) out of complete sets.
func f1Msg(dom uint32, sets ...[]byte) []byte {
	b := make([]byte, 16)
	for _, s := range sets {
		b = append(b, s...)
	}
	binary.BigEndian.PutUint16(b[0:], 10)
	binary.BigEndian.PutUint16(b[2:], uint16(len(b)))
	binary.BigEndian.PutUint32(b[4:], 1700000000)
	binary.BigEndian.PutUint32(b[8:], 0)
	binary.BigEndian.PutUint32(b[12:], dom)
	return b
}

// f1Set builds one set: header (set id, length) followed by body.
func f1Set(id uint16, body ...[]byte) []byte {
	b := make([]byte, 4)
	for _, x := range body {
		b = append(b, x...)
	}
	binary.BigEndian.PutUint16(b[0:], id)
	binary.BigEndian.PutUint16(b[2:], uint16(len(b)))
	return b
}

// f1Template builds one template record.
func f1Template(id uint16, fields ...f1Field) []byte {
	b := make([]byte, 4)
	binary.BigEndian.PutUint16(b[0:], id)
	binary.BigEndian.PutUint16(b[2:], uint16(len(fields)))
	for _, f := range fields {
		x := make([]byte, 4)
		binary.BigEndian.PutUint16(x[0:], f.id)
		binary.BigEndian.PutUint16(x[2:], f.len)
		if f.pen != 0 {
			x[0] |= 0x80
			x = binary.BigEndian.AppendUint32(x, f.pen)
		}
		b = append(b, x...)
	}
	return b
}

type f1Collector struct {
	t    *testing.T
	cp   *CollectingProcess
	msgs chan *entities.Message
}

// f1Start starts a tcp collector on the loopback interface (public API only).
func f1Start(t *testing.T, mode DecodingMode) *f1Collector {
	registry.LoadRegistry()
	cp, err := InitCollectingProcess(CollectorInput{
		Address: "127.0.0.1:0", Protocol: "tcp", MaxBufferSize: 65535, DecodingMode: mode,
	})
	if err != nil {
		t.Fatal(err)
	}
	go cp.Start()
	deadline := time.Now().Add(10 * time.Second)
	for cp.GetAddress() == nil {
		if time.Now().After(deadline) {
			t.Fatal("collector did not start")
		}
		time.Sleep(5 * time.Millisecond)
	}
	c := &f1Collector{t: t, cp: cp, msgs: make(chan *entities.Message, 16)}
	go func() {
		for m := range cp.GetMsgChan() {
			c.msgs <- m
		}
	}()
	t.Cleanup(func() { cp.Stop() })
	return c
}

// send writes one message on a connection of its own and returns what the collector
// delivered for it, or nil when the collector refused the message (it then closes the
// connection, which is how a tcp collector reports a message it cannot decode).
func (c *f1Collector) send(msg []byte) *entities.Message {
	conn, err := net.Dial("tcp", c.cp.GetAddress().String())
	if err != nil {
		c.t.Fatal(err)
	}
	defer conn.Close()
	if _, err := conn.Write(msg); err != nil {
		c.t.Fatal(err)
	}
	closed := make(chan struct{})
	go func() {
		conn.SetReadDeadline(time.Now().Add(10 * time.Second))
		conn.Read(make([]byte, 1))
		close(closed)
	}()
	select {
	case m := <-c.msgs:
		return m
	case <-closed:
		select {
		case m := <-c.msgs:
			return m
		case <-time.After(200 * time.Millisecond):
			return nil
		}
	}
}

func f1Dump(m *entities.Message) string {
	if m == nil {
		return "<refused>"
	}
	s := ""
	for i, r := range m.GetSet().GetRecords() {
		s += fmt.Sprintf("\n      record %d (template %d): %v", i, r.GetTemplateID(), r.GetElementMap())
	}
	return s
}

func f1Setup(t *testing.T) *f1Collector {
	c := f1Start(t, DecodingModeStrict)
	// template 256: sourceTransportPort (7, 2 octets), destinationTransportPort (11, 2 octets)
	if m := c.send(f1Msg(7, f1Set(2, f1Template(256, f1Field{id: 7, len: 2}, f1Field{id: 11, len: 2})))); m == nil {
		t.Fatal("template 256 was refused")
	}
	// template 257: sourceIPv4Address (8, 4 octets)
	if m := c.send(f1Msg(7, f1Set(2, f1Template(257, f1Field{id: 8, len: 4})))); m == nil {
		t.Fatal("template 257 was refused")
	}
	return c
}

// Acceptable outcomes: the message is refused, or what is delivered for template 256 is
// exactly the one record that set 256 holds (80 -> 443).
func f1Check(t *testing.T, m *entities.Message) {
	if m == nil {
		return // refused as a whole: not a wrong decoding
	}
	n256 := 0
	for _, r := range m.GetSet().GetRecords() {
		if r.GetTemplateID() != 256 {
			continue
		}
		n256++
		sp, _, _ := r.GetInfoElementWithValue("sourceTransportPort")
		dp, _, _ := r.GetInfoElementWithValue("destinationTransportPort")
		if sp == nil || dp == nil || sp.GetUnsigned16Value() != 80 || dp.GetUnsigned16Value() != 443 {
			t.Errorf("a record of template 256 was built from bytes outside set 256: %v", r.GetElementMap())
		}
	}
	if n256 != 1 {
		t.Errorf("set 256 holds one record, %d records of template 256 were delivered:%s", n256, f1Dump(m))
	}
}

func TestFinding1_SecondDataSetDecodedWithFirstSetsTemplate(t *testing.T) {
	c := f1Setup(t)
	m := c.send(f1Msg(7,
		f1Set(256, []byte{0, 80, 1, 187}), // one record: 80 -> 443
		f1Set(257, []byte{10, 0, 0, 1}),   // one record: 10.0.0.1
	))
	f1Check(t, m)
}

// The second set names a template id for which no template exists: it has to be rejected,
// not decoded with template 256.
func TestFinding1_SetWithoutTemplateDecodedWithFirstSetsTemplate(t *testing.T) {
	c := f1Setup(t)
	m := c.send(f1Msg(7,
		f1Set(256, []byte{0, 80, 1, 187}),
		f1Set(300, []byte{1, 2, 3, 4, 5, 6, 7, 8}),
	))
	f1Check(t, m)
}
