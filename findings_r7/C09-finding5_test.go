// Finding 5 for property C09 - fails on the CLEAN tree.
//
// Place:  copy to WT/pkg/exporter/finding5_test.go
// Run:    cd WT && go test -count=1 -timeout 120s -run 'TestFinding5C09' ./pkg/exporter
//
// Clause violated: "A data record it does transmit carries each value faithfully ... yields an error rather than a
// silently altered field", and "never emits an invalid message": the first record goes out as zeros -
// neither the value it had when the record was added nor the value the element has when the set is sent -
// and no longer parses as records of the template, while SendSet returns success.
//
// Why the input is legitimate: re-using one set of element objects for every record (Set...Value, AddRecord, next flow) is the
// usage the library was designed for (Antrea does exactly this); AddRecord copies the slice of elements
// but not the values, and the record length is fixed at AddRecord time while the bytes are produced
// lazily inside SendSet. With a variable-length element whose next value is LONGER, the first record's
// buffer is too small, encodeInfoElementValueToBuff fails for every field, dataRecord.GetBuffer only
// logs the error, and the zero-filled buffer is transmitted. Every call returns nil.
// (If the project already lists "values are read at send time" as accepted behaviour, note that this
// case is different: the bytes sent are not the send-time values either.)
package exporter_test

import (
	"bytes"
	"net"
	"sync"
	"testing"
	"time"

	"github.com/vmware/go-ipfix/pkg/entities"
	"github.com/vmware/go-ipfix/pkg/exporter"
)

type f5Peer struct {
	mu  sync.Mutex
	buf []byte
}

func f5Start(t *testing.T) (*f5Peer, *exporter.ExportingProcess) {
	t.Helper()
	l, err := net.Listen("tcp", "127.0.0.1:0")
	if err != nil {
		t.Fatal(err)
	}
	t.Cleanup(func() { l.Close() })
	p := &f5Peer{}
	go func() {
		c, err := l.Accept()
		if err != nil {
			return
		}
		defer c.Close()
		b := make([]byte, 70000)
		for {
			n, err := c.Read(b)
			p.mu.Lock()
			p.buf = append(p.buf, b[:n]...)
			p.mu.Unlock()
			if err != nil {
				return
			}
		}
	}()
	ep, err := exporter.InitExportingProcess(exporter.ExporterInput{
		CollectorAddress:    l.Addr().String(),
		CollectorProtocol:   "tcp",
		ObservationDomainID: 1,
	})
	if err != nil {
		t.Fatal(err)
	}
	t.Cleanup(ep.CloseConnToCollector)
	return p, ep
}

// take returns (and forgets) everything that reached the peer socket so far; it waits long
// enough for loopback delivery of what has already been written.
func (p *f5Peer) take() []byte {
	time.Sleep(300 * time.Millisecond)
	p.mu.Lock()
	defer p.mu.Unlock()
	b := p.buf
	p.buf = nil
	return b
}

func f5Template(t *testing.T, ep *exporter.ExportingProcess, id uint16, ies ...*entities.InfoElement) {
	t.Helper()
	s, err := entities.MakeTemplateSet(id, ies)
	if err != nil {
		t.Fatal(err)
	}
	if _, err := ep.SendSet(s); err != nil {
		t.Fatalf("template set refused: %v", err)
	}
}

func f5DataSet(t *testing.T, id uint16, records ...[]entities.InfoElementWithValue) entities.Set {
	t.Helper()
	s := entities.NewSet(false)
	if err := s.PrepareSet(entities.Data, id); err != nil {
		t.Fatal(err)
	}
	for _, r := range records {
		if err := s.AddRecord(r, id); err != nil {
			t.Fatalf("AddRecord refused: %v", err)
		}
	}
	return s
}

func TestFinding5C09ReusedElementsLongerSecondValue(t *testing.T) {
	peer, ep := f5Start(t)
	nameIE := entities.NewInfoElement("interfaceName", 82, entities.String, 0, entities.VariableLength)
	protoIE := entities.NewInfoElement("protocolIdentifier", 4, entities.Unsigned8, 0, 1)
	f5Template(t, ep, 256, nameIE, protoIE)
	peer.take()

	name := entities.NewStringInfoElement(nameIE, "")
	proto := entities.NewUnsigned8InfoElement(protoIE, 0)
	elements := []entities.InfoElementWithValue{name, proto}

	set := entities.NewSet(false)
	if err := set.PrepareSet(entities.Data, 256); err != nil {
		t.Fatal(err)
	}
	name.SetStringValue("abc")
	proto.SetUnsigned8Value(6)
	if err := set.AddRecord(elements, 256); err != nil {
		t.Fatal(err)
	}
	name.SetStringValue("abcdef")
	proto.SetUnsigned8Value(17)
	if err := set.AddRecord(elements, 256); err != nil {
		t.Fatal(err)
	}
	n, err := ep.SendSet(set)
	wire := peer.take()
	if err != nil {
		if len(wire) != 0 {
			t.Fatalf("SendSet returned %v but wrote %d bytes", err, len(wire))
		}
		return // refusing is fine
	}
	body := wire[20:]
	asAdded := append([]byte{3, 'a', 'b', 'c', 6}, []byte{6, 'a', 'b', 'c', 'd', 'e', 'f', 17}...)
	asSent := append([]byte{6, 'a', 'b', 'c', 'd', 'e', 'f', 17}, []byte{6, 'a', 'b', 'c', 'd', 'e', 'f', 17}...)
	if !bytes.Equal(body, asAdded) && !bytes.Equal(body, asSent) {
		t.Fatalf("SendSet returned (%d, nil) but the records on the wire are % x: neither the values at AddRecord time (% x) nor the values at SendSet time (% x)",
			n, body, asAdded, asSent)
	}
}
