// Finding 5 for property C04 (clean tree) - depends on how "valid template" is read:
// the All Templates Withdrawal of RFC 7011 section 8.1 leaves every template in place.
//
// Place:   copy to WT/pkg/collector/finding5_test.go
// Run:     cd WT && go test -count=1 -timeout 120s -run 'TestFinding5_' ./pkg/collector
// Result:  FAILS on the clean, unchanged tree.
//
// Clause concerned: "A data set is decoded with the most recent valid template received
// ... and is rejected when there is none." The statement does not mention withdrawals; this
// is a violation only if a withdrawn template counts as no longer valid (which is what
// RFC 7011 8.1 says). A withdrawal of a single template (template record with that id and
// field count 0) does make the collector reject later data (the id is overwritten by a
// zero-field template); the withdrawal of ALL templates (template id 2, field count 0,
// allowed on tcp/sctp) is accepted and delivered as a template message, is stored as a
// template with id 2, and every template of the domain stays usable.
package collector

import (
	"encoding/binary"
	"fmt"
	"net"
	"testing"
	"time"

	"github.com/vmware/go-ipfix/pkg/entities"
	"github.com/vmware/go-ipfix/pkg/registry"
)

type f5Field struct {
	id  uint16
	len uint16
	pen uint32 // 0: IANA
}

// f5Msg builds one IPFIX message (RFC 7011, section 3.1) out of complete sets.
func f5Msg(dom uint32, sets ...[]byte) []byte {
	b := make([]byte, 16)
	for _, s := range sets {
		b = append(b, s...)
	}
	binary.BigEndian.PutUint16(b[0:], 10)
	binary.BigEndian.PutUint16(b[2:], uint16(len(b)))
	binary.BigEndian.PutUint32(b[4:], 1700000000)
	binary.BigEndian.PutUint32(b[8:], 0)
	binary.BigEndian.PutUint32(b[12:], dom)
	return b
}

// f5Set builds one set: header (set id, length) followed by body.
func f5Set(id uint16, body ...[]byte) []byte {
	b := make([]byte, 4)
	for _, x := range body {
		b = append(b, x...)
	}
	binary.BigEndian.PutUint16(b[0:], id)
	binary.BigEndian.PutUint16(b[2:], uint16(len(b)))
	return b
}

// f5Template builds one template record.
func f5Template(id uint16, fields ...f5Field) []byte {
	b := make([]byte, 4)
	binary.BigEndian.PutUint16(b[0:], id)
	binary.BigEndian.PutUint16(b[2:], uint16(len(fields)))
	for _, f := range fields {
		x := make([]byte, 4)
		binary.BigEndian.PutUint16(x[0:], f.id)
		binary.BigEndian.PutUint16(x[2:], f.len)
		if f.pen != 0 {
			x[0] |= 0x80
			x = binary.BigEndian.AppendUint32(x, f.pen)
		}
		b = append(b, x...)
	}
	return b
}

type f5Collector struct {
	t    *testing.T
	cp   *CollectingProcess
	msgs chan *entities.Message
}

// f5Start starts a tcp collector on the loopback interface (public API only).
func f5Start(t *testing.T, mode DecodingMode) *f5Collector {
	registry.LoadRegistry()
	cp, err := InitCollectingProcess(CollectorInput{
		Address: "127.0.0.1:0", Protocol: "tcp", MaxBufferSize: 65535, DecodingMode: mode,
	})
	if err != nil {
		t.Fatal(err)
	}
	go cp.Start()
	deadline := time.Now().Add(10 * time.Second)
	for cp.GetAddress() == nil {
		if time.Now().After(deadline) {
			t.Fatal("collector did not start")
		}
		time.Sleep(5 * time.Millisecond)
	}
	c := &f5Collector{t: t, cp: cp, msgs: make(chan *entities.Message, 16)}
	go func() {
		for m := range cp.GetMsgChan() {
			c.msgs <- m
		}
	}()
	t.Cleanup(func() { cp.Stop() })
	return c
}

// send writes one message on a connection of its own and returns what the collector
// delivered for it, or nil when the collector refused the message (it then closes the
// connection, which is how a tcp collector reports a message it cannot decode).
func (c *f5Collector) send(msg []byte) *entities.Message {
	conn, err := net.Dial("tcp", c.cp.GetAddress().String())
	if err != nil {
		c.t.Fatal(err)
	}
	defer conn.Close()
	if _, err := conn.Write(msg); err != nil {
		c.t.Fatal(err)
	}
	closed := make(chan struct{})
	go func() {
		conn.SetReadDeadline(time.Now().Add(10 * time.Second))
		conn.Read(make([]byte, 1))
		close(closed)
	}()
	select {
	case m := <-c.msgs:
		return m
	case <-closed:
		select {
		case m := <-c.msgs:
			return m
		case <-time.After(200 * time.Millisecond):
			return nil
		}
	}
}

func f5Dump(m *entities.Message) string {
	if m == nil {
		return "<refused>"
	}
	s := ""
	for i, r := range m.GetSet().GetRecords() {
		s += fmt.Sprintf("\n      record %d (template %d): %v", i, r.GetTemplateID(), r.GetElementMap())
	}
	return s
}

func TestFinding5_AllTemplatesWithdrawalIsIgnored(t *testing.T) {
	c := f5Start(t, DecodingModeStrict)
	if m := c.send(f5Msg(7, f5Set(2, f5Template(256, f5Field{id: 8, len: 4})))); m == nil {
		t.Fatal("template 256 was refused")
	}
	if m := c.send(f5Msg(7, f5Set(2, f5Template(257, f5Field{id: 7, len: 2})))); m == nil {
		t.Fatal("template 257 was refused")
	}
	// single withdrawal of 257: works
	if m := c.send(f5Msg(7, f5Set(2, f5Template(257)))); m == nil {
		t.Fatal("withdrawal of template 257 was refused")
	}
	if m := c.send(f5Msg(7, f5Set(257, []byte{0, 80}))); m != nil {
		t.Errorf("data set decoded with the withdrawn template 257")
	}
	// all templates withdrawal: template record with id 2 (the template set id), field count 0
	if m := c.send(f5Msg(7, f5Set(2, f5Template(2)))); m == nil {
		t.Fatal("all templates withdrawal was refused")
	}
	if m := c.send(f5Msg(7, f5Set(256, []byte{10, 0, 0, 1}))); m != nil {
		t.Errorf("data set 256 decoded after all templates of the domain were withdrawn:%s", f5Dump(m))
	}
}
