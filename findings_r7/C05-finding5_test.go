// FINDING 5 (property C05, clean tree): ResetStatAndThroughputElementsInRecord PANICS (nil
// pointer dereference) on an aggregation process created without AggregateElements, although
// that configuration is supported everywhere else (InitAggregationProcess accepts it, and
// aggregateRecords / addFieldsFor... all start with "if a.aggregateElements == nil { return nil }").
//
// Place:   copy to WT/pkg/intermediate/finding5_test.go
// Run:     cd WT && go test -count=1 -timeout 120s -run 'TestFinding5' ./pkg/intermediate
//
// Clause violated: "a reset clears delta and throughput fields only" - with no aggregate elements
// configured there is nothing to clear, so the reset must leave the record as it is and return;
// it crashes instead. Interleaving exports and resets is part of the property's histories.
//
// Why the input is legitimate: a generic export callback (like the one of Antrea's flow
// aggregator) calls ResetStatAndThroughputElementsInRecord after every export, whatever the
// configuration; a process that only correlates (CorrelateFields set, AggregateElements nil) is
// what most of the library's own tests create (TestAggregateMsgByFlowKey, TestCorrelateRecords...). The call sits inside ForAllExpiredFlowRecordsDo's callback, so if the
// application recovers the panic the flow's queue item (already popped) is lost as well.
package intermediate_test

import (
	"net"
	"strings"
	"testing"
	"time"

	"github.com/vmware/go-ipfix/pkg/entities"
	"github.com/vmware/go-ipfix/pkg/intermediate"
	"github.com/vmware/go-ipfix/pkg/registry"
)

var f5Stats = []string{"packetTotalCount", "packetDeltaCount", "octetTotalCount", "octetDeltaCount",
	"reversePacketTotalCount", "reversePacketDeltaCount", "reverseOctetTotalCount", "reverseOctetDeltaCount"}

func f5IE(t testing.TB, name string) *entities.InfoElement {
	for _, en := range []uint32{registry.IANAEnterpriseID, registry.IANAReversedEnterpriseID, registry.AntreaEnterpriseID} {
		if ie, err := registry.GetInfoElement(name, en); err == nil {
			return ie
		}
	}
	t.Fatalf("element %s not in the registries", name)
	return nil
}

func f5Message(t testing.TB, start, end uint32, total, delta uint64) *entities.Message {
	el := []entities.InfoElementWithValue{
		entities.NewIPAddressInfoElement(f5IE(t, "sourceIPv4Address"), net.ParseIP("10.0.0.1").To4()),
		entities.NewIPAddressInfoElement(f5IE(t, "destinationIPv4Address"), net.ParseIP("10.0.0.2").To4()),
		entities.NewUnsigned16InfoElement(f5IE(t, "sourceTransportPort"), 1234),
		entities.NewUnsigned16InfoElement(f5IE(t, "destinationTransportPort"), 80),
		entities.NewUnsigned8InfoElement(f5IE(t, "protocolIdentifier"), 6),
		entities.NewStringInfoElement(f5IE(t, "sourcePodName"), "podA"),
		entities.NewStringInfoElement(f5IE(t, "destinationPodName"), "podB"),
		entities.NewUnsigned8InfoElement(f5IE(t, "flowType"), registry.FlowTypeIntraNode),
		entities.NewDateTimeSecondsInfoElement(f5IE(t, "flowStartSeconds"), start),
		entities.NewDateTimeSecondsInfoElement(f5IE(t, "flowEndSeconds"), end),
	}
	for _, s := range f5Stats {
		v := total
		if strings.Contains(s, "Delta") {
			v = delta
		}
		el = append(el, entities.NewUnsigned64InfoElement(f5IE(t, s), v))
	}
	set := entities.NewSet(true)
	if err := set.PrepareSet(entities.Data, 256); err != nil {
		t.Fatal(err)
	}
	if err := set.AddRecord(el, 256); err != nil {
		t.Fatal(err)
	}
	m := entities.NewMessage(true)
	m.SetVersion(10)
	m.SetObsDomainID(1)
	m.SetExportAddress("127.0.0.1")
	m.AddSet(set)
	return m
}

func TestFinding5_ResetWithoutAggregateElements(t *testing.T) {
	registry.LoadRegistry()
	ap, err := intermediate.InitAggregationProcess(intermediate.AggregationInput{
		MessageChan:           make(chan *entities.Message),
		WorkerNum:             1,
		CorrelateFields:       []string{"sourcePodName", "destinationPodName"},
		ActiveExpiryTimeout:   time.Millisecond,
		InactiveExpiryTimeout: time.Hour,
	})
	if err != nil {
		t.Fatalf("configuration refused: %v", err)
	}
	if err := ap.AggregateMsgByFlowKey(f5Message(t, 100, 110, 10, 10)); err != nil {
		t.Fatalf("record refused: %v", err)
	}
	time.Sleep(10 * time.Millisecond)
	exported := 0
	var panicked interface{}
	func() {
		defer func() { panicked = recover() }()
		err = ap.ForAllExpiredFlowRecordsDo(func(key intermediate.FlowKey, rec *intermediate.AggregationFlowRecord) error {
			exported++
			return ap.ResetStatAndThroughputElementsInRecord(rec.Record)
		})
	}()
	if panicked != nil {
		t.Fatalf("export + reset panicked: %v", panicked)
	}
	if err != nil || exported != 1 {
		t.Fatalf("export: err=%v exported=%d", err, exported)
	}
}
