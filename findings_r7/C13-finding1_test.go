// FINDING 1 (property C13, clean tree): Stop() while a worker of the built-in pool is between
// taking a message off the channel and entering the flow table deadlocks the whole
// aggregation process - every later scan, query and ingest call blocks for ever.
//
// Place:   copy to WT/pkg/intermediate/finding1_test.go
// Run:     cd WT && go test -count=1 -race -timeout 120s -run 'TestFinding1' ./pkg/intermediate
// Result on the CLEAN tree: FAIL ("Stop() did not return ..." and "GetNumFlows() did not return ...").
//
// Clause violated: "Concurrent record ingestion by any number of workers, expiry scans and
// queries behave as if executed one at a time in some order" / quantifier "for all interleavings
// of ... ingesting goroutines (and the built-in worker pool) with concurrent expiry scans,
// GetRecords/GetNumFlows/GetExpiry calls": on this interleaving the operations never take
// effect at all. AggregationProcess.Stop takes a.mutex and, still holding it, hands every worker
// its stop token over an UNBUFFERED channel (worker.stop: w.errChan <- true). A worker that has
// already received a message is not in its select any more: it is inside
// AggregateMsgByFlowKey -> addOrUpdateRecordInMap waiting for that same a.mutex. Stop waits for
// the worker, the worker waits for Stop; the mutex is never released, so GetNumFlows, GetRecords,
// GetExpiryFromExpirePriorityQueue, ForAllExpiredFlowRecordsDo and every other ingesting
// goroutine hang as well, and the record the worker holds is never counted.
//
// Why the input is legitimate: only public API, every step accepted: InitAggregationProcess,
// go Start(), one ordinary data message on the message channel, one ForAllRecordsDo visitor
// that takes a few milliseconds (it only serves to make the window wide and the schedule
// deterministic; a busy pool with 2+ workers, or an expiry scan that exports records, opens the
// same window all the time), Stop(). This is the shutdown path of every user of the library
// (Stop is called while exporters are still sending). TestFinding1_StopUnderLoad shows the same
// hang without any orchestration: 4 workers, a steady stream of messages, a scanner, then Stop.
package intermediate_test

import (
	"net"
	"sync/atomic"
	"testing"
	"time"

	"github.com/vmware/go-ipfix/pkg/entities"
	"github.com/vmware/go-ipfix/pkg/intermediate"
	"github.com/vmware/go-ipfix/pkg/registry"
)

func init() { registry.LoadRegistry() }

func f1Msg(t testing.TB, srcPort uint16) *entities.Message {
	ie := func(name string, ent uint32) *entities.InfoElement {
		e, err := registry.GetInfoElement(name, ent)
		if err != nil {
			t.Fatal(err)
		}
		return e
	}
	elements := []entities.InfoElementWithValue{
		entities.NewIPAddressInfoElement(ie("sourceIPv4Address", 0), net.ParseIP("10.0.0.1").To4()),
		entities.NewIPAddressInfoElement(ie("destinationIPv4Address", 0), net.ParseIP("10.0.0.2").To4()),
		entities.NewUnsigned16InfoElement(ie("sourceTransportPort", 0), srcPort),
		entities.NewUnsigned16InfoElement(ie("destinationTransportPort", 0), 443),
		entities.NewUnsigned8InfoElement(ie("protocolIdentifier", 0), 6),
		entities.NewUnsigned8InfoElement(ie("flowType", registry.AntreaEnterpriseID), registry.FlowTypeIntraNode),
	}
	set := entities.NewSet(true)
	if err := set.PrepareSet(entities.Data, 256); err != nil {
		t.Fatal(err)
	}
	if err := set.AddRecord(elements, 256); err != nil {
		t.Fatal(err)
	}
	m := entities.NewMessage(true)
	m.SetVersion(10)
	m.SetObsDomainID(1)
	m.SetExportAddress("127.0.0.1")
	m.AddSet(set)
	return m
}

func returnsWithin(d time.Duration, f func()) bool {
	done := make(chan struct{})
	go func() { f(); close(done) }()
	select {
	case <-done:
		return true
	case <-time.After(d):
		return false
	}
}

// Deterministic schedule: one worker; a visitor holds the process; Stop queues up for the
// mutex; the worker takes a message and queues up behind Stop; the visitor returns.
func TestFinding1_StopWhileWorkerHoldsMessage(t *testing.T) {
	ch := make(chan *entities.Message)
	ap, err := intermediate.InitAggregationProcess(intermediate.AggregationInput{
		MessageChan:           ch,
		WorkerNum:             1,
		ActiveExpiryTimeout:   time.Hour,
		InactiveExpiryTimeout: time.Hour,
	})
	if err != nil {
		t.Fatal(err)
	}
	go ap.Start()
	ch <- f1Msg(t, 1000) // the pool is up and has ingested one flow
	for ap.GetNumFlows() != 1 {
		time.Sleep(time.Millisecond)
	}

	inVisitor := make(chan struct{})
	release := make(chan struct{})
	go ap.ForAllRecordsDo(func(intermediate.FlowKey, *intermediate.AggregationFlowRecord) error {
		close(inVisitor)
		<-release
		return nil
	})
	<-inVisitor

	stopped := make(chan struct{})
	go func() { ap.Stop(); close(stopped) }()
	time.Sleep(100 * time.Millisecond) // Stop is waiting for the visitor
	ch <- f1Msg(t, 1001)               // the worker takes the message ...
	time.Sleep(100 * time.Millisecond) // ... and waits for the visitor too, behind Stop
	close(release)

	select {
	case <-stopped:
	case <-time.After(5 * time.Second):
		t.Errorf("Stop() did not return within 5s of the visitor's return: it holds the process's mutex while waiting for a worker that waits for that mutex")
	}
	var n int64
	if !returnsWithin(5*time.Second, func() { n = ap.GetNumFlows() }) {
		t.Errorf("GetNumFlows() did not return within 5s: the aggregation process is dead-locked (queries, scans and ingestion all hang)")
	} else if n != 2 {
		t.Errorf("GetNumFlows() = %d, want 2: the record the worker had taken was lost", n)
	}
}

// No orchestration: a busy pool, a scanner, and Stop at an arbitrary moment.
func TestFinding1_StopUnderLoad(t *testing.T) {
	hung := 0
	const rounds = 10
	for r := 0; r < rounds; r++ {
		ch := make(chan *entities.Message)
		ap, err := intermediate.InitAggregationProcess(intermediate.AggregationInput{
			MessageChan:           ch,
			WorkerNum:             4,
			ActiveExpiryTimeout:   time.Millisecond,
			InactiveExpiryTimeout: time.Hour,
		})
		if err != nil {
			t.Fatal(err)
		}
		go ap.Start()
		var quit atomic.Bool
		go func() { // exporter traffic
			for i := 0; !quit.Load(); i++ {
				select {
				case ch <- f1Msg(t, uint16(1+i%64)):
				case <-time.After(10 * time.Millisecond):
				}
			}
		}()
		go func() { // the application's expiry loop
			for !quit.Load() {
				ap.ForAllExpiredFlowRecordsDo(func(intermediate.FlowKey, *intermediate.AggregationFlowRecord) error { return nil })
			}
		}()
		time.Sleep(20 * time.Millisecond)
		if !returnsWithin(2*time.Second, ap.Stop) {
			hung++
		}
		quit.Store(true)
	}
	if hung > 0 {
		t.Errorf("Stop() hung in %d of %d rounds with 4 busy workers and a concurrent expiry loop", hung, rounds)
	}
}
