// Finding 4 for property C04 (clean tree): a template set that ends right after the template
// id does not invalidate the older template.
//
// Place:   copy to WT/pkg/collector/finding4_test.go
// Run:     cd WT && go test -count=1 -timeout 120s -run 'TestFinding4_' ./pkg/collector
// Result:  FAILS on the clean, unchanged tree.
//
// Clause violated (literally): "A template set that fails to decode after its id was read
// removes any older template with that id, so later data sets are rejected rather than
// decoded against a stale definition."
//
// decodeTemplateSet reads template id and field count with ONE util.Decode call and
// returns on its error without calling deleteTemplate; the invalidation is only wired to
// failures of the per-field decoding. When the set ends after the two octets of the id
// (field count missing) the id HAS been read (util.Decode fills templateID before it fails
// on fieldCount), the set is refused - and the older template 256 stays in place.
//
// Why the input is legitimate / how realistic: it is a malformed message, which is exactly
// what the clause is about; the collector reports the decoding error as for any other bad
// template set. It arises from a truncated datagram (a udp collector truncates to
// MaxBufferSize without notice) or a buggy exporter. It is a narrow case: the cut has to
// fall before or inside the two octets of the field count (2 or 3 octets of the template
// record present); a cut anywhere after the field count is handled.
package collector

import (
	"encoding/binary"
	"fmt"
	"net"
	"testing"
	"time"

	"github.com/vmware/go-ipfix/pkg/entities"
	"github.com/vmware/go-ipfix/pkg/registry"
)

type f4Field struct {
	id  uint16
	len uint16
	pen uint32 // 0: IANA
}

// f4Msg builds one IPFIX message (RFC 7011, section 3.1) out of complete sets.
func f4Msg(dom uint32, sets ...[]byte) []byte {
	b := make([]byte, 16)
	for _, s := range sets {
		b = append(b, s...)
	}
	binary.BigEndian.PutUint16(b[0:], 10)
	binary.BigEndian.PutUint16(b[2:], uint16(len(b)))
	binary.BigEndian.PutUint32(b[4:], 1700000000)
	binary.BigEndian.PutUint32(b[8:], 0)
	binary.BigEndian.PutUint32(b[12:], dom)
	return b
}

// f4Set builds one set: header (set id, length) followed by body.
func f4Set(id uint16, body ...[]byte) []byte {
	b := make([]byte, 4)
	for _, x := range body {
		b = append(b, x...)
	}
	binary.BigEndian.PutUint16(b[0:], id)
	binary.BigEndian.PutUint16(b[2:], uint16(len(b)))
	return b
}

// f4Template builds one template record.
func f4Template(id uint16, fields ...f4Field) []byte {
	b := make([]byte, 4)
	binary.BigEndian.PutUint16(b[0:], id)
	binary.BigEndian.PutUint16(b[2:], uint16(len(fields)))
	for _, f := range fields {
		x := make([]byte, 4)
		binary.BigEndian.PutUint16(x[0:], f.id)
		binary.BigEndian.PutUint16(x[2:], f.len)
		if f.pen != 0 {
			x[0] |= 0x80
			x = binary.BigEndian.AppendUint32(x, f.pen)
		}
		b = append(b, x...)
	}
	return b
}

type f4Collector struct {
	t    *testing.T
	cp   *CollectingProcess
	msgs chan *entities.Message
}

// f4Start starts a tcp collector on the loopback interface (public API only).
func f4Start(t *testing.T, mode DecodingMode) *f4Collector {
	registry.LoadRegistry()
	cp, err := InitCollectingProcess(CollectorInput{
		Address: "127.0.0.1:0", Protocol: "tcp", MaxBufferSize: 65535, DecodingMode: mode,
	})
	if err != nil {
		t.Fatal(err)
	}
	go cp.Start()
	deadline := time.Now().Add(10 * time.Second)
	for cp.GetAddress() == nil {
		if time.Now().After(deadline) {
			t.Fatal("collector did not start")
		}
		time.Sleep(5 * time.Millisecond)
	}
	c := &f4Collector{t: t, cp: cp, msgs: make(chan *entities.Message, 16)}
	go func() {
		for m := range cp.GetMsgChan() {
			c.msgs <- m
		}
	}()
	t.Cleanup(func() { cp.Stop() })
	return c
}

// send writes one message on a connection of its own and returns what the collector
// delivered for it, or nil when the collector refused the message (it then closes the
// connection, which is how a tcp collector reports a message it cannot decode).
func (c *f4Collector) send(msg []byte) *entities.Message {
	conn, err := net.Dial("tcp", c.cp.GetAddress().String())
	if err != nil {
		c.t.Fatal(err)
	}
	defer conn.Close()
	if _, err := conn.Write(msg); err != nil {
		c.t.Fatal(err)
	}
	closed := make(chan struct{})
	go func() {
		conn.SetReadDeadline(time.Now().Add(10 * time.Second))
		conn.Read(make([]byte, 1))
		close(closed)
	}()
	select {
	case m := <-c.msgs:
		return m
	case <-closed:
		select {
		case m := <-c.msgs:
			return m
		case <-time.After(200 * time.Millisecond):
			return nil
		}
	}
}

func f4Dump(m *entities.Message) string {
	if m == nil {
		return "<refused>"
	}
	s := ""
	for i, r := range m.GetSet().GetRecords() {
		s += fmt.Sprintf("\n      record %d (template %d): %v", i, r.GetTemplateID(), r.GetElementMap())
	}
	return s
}

func TestFinding4_TemplateSetCutAfterIdKeepsStaleTemplate(t *testing.T) {
	c := f4Start(t, DecodingModeStrict)
	if m := c.send(f4Msg(7, f4Set(2, f4Template(256, f4Field{id: 8, len: 4})))); m == nil {
		t.Fatal("template 256 was refused")
	}
	if m := c.send(f4Msg(7, f4Set(256, []byte{10, 0, 0, 1}))); m == nil {
		t.Fatal("data set 256 was rejected")
	}
	// template set for id 256 that ends after the id; also with one more octet
	for _, body := range [][]byte{{1, 0}, {1, 0, 0}} {
		if m := c.send(f4Msg(7, f4Set(2, body))); m != nil {
			t.Fatalf("truncated template set % x was accepted", body)
		}
		if m := c.send(f4Msg(7, f4Set(256, []byte{10, 0, 0, 1}))); m != nil {
			t.Errorf("after the undecodable template set % x for id 256 a data set was still decoded against the older template:%s", body, f4Dump(m))
		}
	}
}
