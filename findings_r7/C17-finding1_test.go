// Finding 1 for property C17 (CLEAN tree): in strict mode over UDP, data that follows a rejected
// template is decoded and delivered - with the layout of ANOTHER exporter's template.
//
// Place:   copy to WT/pkg/collector/finding1_test.go (package collector; only the public API is used)
// Run:     cd WT && go test -count=1 -run 'TestFinding1StrictDataAfterRejectedTemplate' ./pkg/collector
//
// Clause: "strict mode rejects the template and the data that follows".
//
// Input (every step is an ordinary, well-formed IPFIX message that the library accepts or
// refuses as documented):
//   - one collecting process, protocol udp, DecodingModeStrict;
//   - exporter B (its own UDP socket = its own transport session) sends template 256 of
//     observation domain 1 naming an enterprise element the registry does not have
//     -> refused, as strict mode promises;
//   - exporter A (another socket) sends ITS template 256 of observation domain 1, known elements
//     only -> accepted;
//   - exporter B, which gets no feedback over UDP, goes on sending data records for its
//     template 256.
// RFC 7011 (section 8) scopes template ids to the transport session and observation domain, so B
// has no template 256 and its data has to be refused. Observation domain 1 (or 0) and template id
// 256 are what nearly every exporter starts with, so two different exporters reporting to one
// collector collide all the time.
//
// Observed: B's record is delivered to the application, cut up along A's template:
// sourceIPv4Address=170.187.204.221 (B's enterprise bytes AA BB CC DD), destinationIPv4Address=
// B's source address. Expected: nothing of B's data set is delivered.
package collector

import (
	"encoding/binary"
	"net"
	"testing"
	"time"

	"github.com/vmware/go-ipfix/pkg/entities"
	"github.com/vmware/go-ipfix/pkg/registry"
)

func f1Msg(obsDomain uint32, setID uint16, body []byte) []byte {
	msg := make([]byte, 20, 20+len(body))
	binary.BigEndian.PutUint16(msg[0:], 10)
	binary.BigEndian.PutUint16(msg[2:], uint16(20+len(body)))
	binary.BigEndian.PutUint32(msg[4:], 1700000000)
	binary.BigEndian.PutUint32(msg[12:], obsDomain)
	binary.BigEndian.PutUint16(msg[16:], setID)
	binary.BigEndian.PutUint16(msg[18:], uint16(4+len(body)))
	return append(msg, body...)
}

func TestFinding1StrictDataAfterRejectedTemplate(t *testing.T) {
	registry.LoadRegistry()
	cp, err := InitCollectingProcess(CollectorInput{
		Address: "127.0.0.1:0", Protocol: "udp", MaxBufferSize: 65535, TemplateTTL: 0,
		DecodingMode: DecodingModeStrict,
	})
	if err != nil {
		t.Fatal(err)
	}
	go cp.Start()
	defer cp.Stop()
	for i := 0; cp.GetAddress() == nil; i++ {
		if i > 500 {
			t.Fatal("collector did not start")
		}
		time.Sleep(10 * time.Millisecond)
	}
	dial := func() net.Conn {
		c, err := net.Dial("udp", cp.GetAddress().String())
		if err != nil {
			t.Fatal(err)
		}
		return c
	}
	exporterA, exporterB := dial(), dial()
	defer exporterA.Close()
	defer exporterB.Close()

	next := func(wait time.Duration) *entities.Message {
		select {
		case m := <-cp.GetMsgChan():
			return m
		case <-time.After(wait):
			return nil
		}
	}

	// B: template 256 = { enterprise 55555 / element 7 (4 bytes), sourceIPv4Address }.
	tmplB := []byte{1, 0, 0, 2, 0x80, 7, 0, 4, 0, 0, 0xD9, 0x03, 0, 8, 0, 4}
	if _, err := exporterB.Write(f1Msg(1, 2, tmplB)); err != nil {
		t.Fatal(err)
	}
	if m := next(500 * time.Millisecond); m != nil {
		t.Fatalf("strict mode delivered the template with the unknown element")
	}

	// A: template 256 = { sourceIPv4Address, destinationIPv4Address }.
	tmplA := []byte{1, 0, 0, 2, 0, 8, 0, 4, 0, 12, 0, 4}
	if _, err := exporterA.Write(f1Msg(1, 2, tmplA)); err != nil {
		t.Fatal(err)
	}
	if m := next(2 * time.Second); m == nil || m.GetSet().GetSetType() != entities.Template {
		t.Fatalf("exporter A's template (known elements only) was not accepted")
	}

	// B: a data record for its (refused) template 256: AA BB CC DD | 10.9.8.7
	if _, err := exporterB.Write(f1Msg(1, 256, []byte{0xAA, 0xBB, 0xCC, 0xDD, 10, 9, 8, 7})); err != nil {
		t.Fatal(err)
	}
	if m := next(time.Second); m != nil {
		desc := ""
		for _, r := range m.GetSet().GetRecords() {
			for _, e := range r.GetOrderedElementList() {
				desc += " " + e.GetName() + "=" + e.GetIPAddressValue().String()
			}
		}
		t.Fatalf("strict mode refused exporter B's template 256, yet B's data set for it was decoded and delivered (from %s):%s",
			m.GetExportAddress(), desc)
	}
}
