// FINDING 3 (property C07, borders on the aggregation property) - clean tree.
//
// Place:   copy to WT/pkg/intermediate/finding3_test.go
// Run:     cd WT && go test -count=1 -timeout 120s -run 'TestFinding3' ./pkg/intermediate
//
// Clause violated: "An inter-node flow that needs correlation is withheld from export until records
// from both the source and the destination node have been received ...; the merged record then
// carries every non-empty correlated field from either side and is marked filled" - at the moment
// the record of the other node arrives the process panics (nil pointer dereference in
// updateFlowEndSecondsFromNodes, aggregate.go:851-852) instead of merging or refusing the record.
// In a running process the panic happens on a worker goroutine and takes the whole collector down.
//
// Input: AggregateElements configured as in the package's own tests.  The source node's template
// carries flowStartSeconds; the destination node's template does not (it carries flowEndSeconds
// and everything else).  The source record arrives first and is withheld; then the destination
// record arrives.  Being the first record from its node, flowEndSecondsFromDestinationNode is
// still 0, so the code reads flowStartSeconds of the INCOMING record without checking that the
// element exists.
//
// Why legitimate: the same destination record sent FIRST is refused with an ordinary error
// ("element with name flowStartSeconds not present in the incoming record"), so the library means
// to handle such records by an error; sent second it passes validateDataRecord and
// getFlowKeyFromRecord and then crashes.  Exporters of two software versions (or of two vendors)
// reporting to one mediator have different templates; the suite already feeds templates that lack
// correlate elements, this one lacks a time stamp instead.
package intermediate

import (
	"net"
	"testing"
	"time"

	"github.com/vmware/go-ipfix/pkg/entities"
	"github.com/vmware/go-ipfix/pkg/registry"
)

func f3Elem(t *testing.T, name string, ent uint32) *entities.InfoElement {
	ie, err := registry.GetInfoElement(name, ent)
	if err != nil {
		t.Fatalf("registry: %v", err)
	}
	return ie
}

func f3Msg(t *testing.T, srcPod, dstPod string, withStart bool) *entities.Message {
	const A = registry.AntreaEnterpriseID
	const R = registry.IANAReversedEnterpriseID
	elements := []entities.InfoElementWithValue{
		entities.NewIPAddressInfoElement(f3Elem(t, "sourceIPv4Address", 0), net.ParseIP("10.1.0.1").To4()),
		entities.NewIPAddressInfoElement(f3Elem(t, "destinationIPv4Address", 0), net.ParseIP("10.2.0.2").To4()),
		entities.NewUnsigned16InfoElement(f3Elem(t, "sourceTransportPort", 0), 40000),
		entities.NewUnsigned16InfoElement(f3Elem(t, "destinationTransportPort", 0), 443),
		entities.NewUnsigned8InfoElement(f3Elem(t, "protocolIdentifier", 0), 6),
		entities.NewStringInfoElement(f3Elem(t, "sourcePodName", A), srcPod),
		entities.NewStringInfoElement(f3Elem(t, "destinationPodName", A), dstPod),
		entities.NewUnsigned8InfoElement(f3Elem(t, "flowType", A), registry.FlowTypeInterNode),
		entities.NewDateTimeSecondsInfoElement(f3Elem(t, "flowEndSeconds", 0), 1700000010),
		entities.NewUnsigned8InfoElement(f3Elem(t, "flowEndReason", 0), registry.ActiveTimeoutReason),
		entities.NewStringInfoElement(f3Elem(t, "tcpState", A), "ESTABLISHED"),
		entities.NewStringInfoElement(f3Elem(t, "httpVals", A), ""),
		entities.NewUnsigned64InfoElement(f3Elem(t, "packetTotalCount", 0), 10),
		entities.NewUnsigned64InfoElement(f3Elem(t, "packetDeltaCount", 0), 10),
		entities.NewUnsigned64InfoElement(f3Elem(t, "octetTotalCount", 0), 1000),
		entities.NewUnsigned64InfoElement(f3Elem(t, "reversePacketTotalCount", R), 8),
		entities.NewUnsigned64InfoElement(f3Elem(t, "reversePacketDeltaCount", R), 8),
		entities.NewUnsigned64InfoElement(f3Elem(t, "reverseOctetTotalCount", R), 800),
	}
	if withStart {
		elements = append(elements, entities.NewDateTimeSecondsInfoElement(f3Elem(t, "flowStartSeconds", 0), 1700000000))
	}
	set := entities.NewSet(true)
	if err := set.PrepareSet(entities.Data, 256); err != nil {
		t.Fatal(err)
	}
	if err := set.AddRecord(elements, 256); err != nil {
		t.Fatal(err)
	}
	msg := entities.NewMessage(true)
	msg.SetVersion(10)
	msg.SetObsDomainID(1)
	msg.AddSet(set)
	return msg
}

func f3Process(t *testing.T) *AggregationProcess {
	ap, err := InitAggregationProcess(AggregationInput{
		MessageChan:     make(chan *entities.Message),
		WorkerNum:       1,
		CorrelateFields: []string{"sourcePodName", "destinationPodName"},
		AggregateElements: &AggregationElements{
			NonStatsElements:                   []string{"flowEndSeconds", "flowEndReason", "tcpState", "httpVals"},
			StatsElements:                      []string{"packetTotalCount", "packetDeltaCount", "octetTotalCount", "reversePacketTotalCount", "reversePacketDeltaCount", "reverseOctetTotalCount"},
			AggregatedSourceStatsElements:      []string{"packetTotalCountFromSourceNode", "packetDeltaCountFromSourceNode", "octetTotalCountFromSourceNode", "reversePacketTotalCountFromSourceNode", "reversePacketDeltaCountFromSourceNode", "reverseOctetTotalCountFromSourceNode"},
			AggregatedDestinationStatsElements: []string{"packetTotalCountFromDestinationNode", "packetDeltaCountFromDestinationNode", "octetTotalCountFromDestinationNode", "reversePacketTotalCountFromDestinationNode", "reversePacketDeltaCountFromDestinationNode", "reverseOctetTotalCountFromDestinationNode"},
			AntreaFlowEndSecondsElements:       []string{"flowEndSecondsFromSourceNode", "flowEndSecondsFromDestinationNode"},
			ThroughputElements:                 []string{"throughput", "reverseThroughput"},
			SourceThroughputElements:           []string{"throughputFromSourceNode", "reverseThroughputFromSourceNode"},
			DestinationThroughputElements:      []string{"throughputFromDestinationNode", "reverseThroughputFromDestinationNode"},
		},
		ActiveExpiryTimeout:   20 * time.Millisecond,
		InactiveExpiryTimeout: 30 * time.Millisecond,
	})
	if err != nil {
		t.Fatal(err)
	}
	return ap
}

func TestFinding3_PeerRecordWithoutFlowStartSeconds(t *testing.T) {
	// control: the destination record alone (first record of the flow) is refused with an error
	ap := f3Process(t)
	if err := ap.AggregateMsgByFlowKey(f3Msg(t, "", "server", false)); err == nil {
		t.Fatalf("control: a first record without flowStartSeconds was expected to be refused with an error")
	} else {
		t.Logf("control: first record without flowStartSeconds is refused: %v", err)
	}

	// the same record as the SECOND record of a flow that waits for correlation
	ap = f3Process(t)
	if err := ap.AggregateMsgByFlowKey(f3Msg(t, "client", "", true)); err != nil {
		t.Fatalf("source record refused: %v", err)
	}
	func() {
		defer func() {
			if r := recover(); r != nil {
				t.Fatalf("panic when the destination node's record arrives for the waiting flow: %v", r)
			}
		}()
		err := ap.AggregateMsgByFlowKey(f3Msg(t, "", "server", false))
		t.Logf("destination record handled without panic, err=%v", err)
	}()
}
