// Finding 2 for property C17 (CLEAN tree): a record decoded in keep mode does not deliver its
// unknown fields through Record.GetElementMap(): every unknown field is reported as an error value
// ("API supports only valid information elements with datatypes given in RFC7011"), and because
// unknown elements have no name, all unknown fields of a record fall onto the single key "".
//
// Place:   copy to WT/pkg/collector/finding2_test.go (package collector, in-package: uses decodePacket)
// Run:     cd WT && go test -count=1 -run 'TestFinding2KeepModeElementMap' ./pkg/collector
//
// Clause: "keep mode delivers each unknown field as an octet array holding exactly the bytes
// received (fixed or variable length)". GetElementMap is one of the two accessors the Record
// interface offers for the decoded fields (the other is GetOrderedElementList); it is the one an
// application uses to turn a record into JSON / a log line.
//
// Input: keep mode; template 300 = { sourceIPv4Address, enterprise 55555/7 (fixed, 3 bytes),
// enterprise 55555/9 (variable length), destinationTransportPort }; one data record
// 10.1.2.3 | A1 A2 A3 | 02 B1 B2 | 0xBEEF. Both messages are accepted.
//
// Observed: map has 3 entries; map[""] is an error; the bytes A1 A2 A3 and B1 B2 are nowhere.
// Expected: each of the two unknown fields present with its bytes (as GetOrderedElementList
// delivers them).
package collector

import (
	"bytes"
	"encoding/binary"
	"testing"

	"github.com/vmware/go-ipfix/pkg/registry"
)

func f2Msg(obsDomain uint32, setID uint16, body []byte) []byte {
	msg := make([]byte, 20, 20+len(body))
	binary.BigEndian.PutUint16(msg[0:], 10)
	binary.BigEndian.PutUint16(msg[2:], uint16(20+len(body)))
	binary.BigEndian.PutUint32(msg[4:], 1700000000)
	binary.BigEndian.PutUint32(msg[12:], obsDomain)
	binary.BigEndian.PutUint16(msg[16:], setID)
	binary.BigEndian.PutUint16(msg[18:], uint16(4+len(body)))
	return append(msg, body...)
}

func TestFinding2KeepModeElementMap(t *testing.T) {
	registry.LoadRegistry()
	cp, err := InitCollectingProcess(CollectorInput{Address: "127.0.0.1:0", Protocol: "tcp", MaxBufferSize: 65535, DecodingMode: DecodingModeLenientKeepUnknown})
	if err != nil {
		t.Fatal(err)
	}
	go func() {
		for range cp.GetMsgChan() {
		}
	}()
	defer cp.CloseMsgChan()

	tmpl := []byte{1, 44, 0, 4,
		0, 8, 0, 4,
		0x80, 7, 0, 3, 0, 0, 0xD9, 0x03,
		0x80, 9, 0xFF, 0xFF, 0, 0, 0xD9, 0x03,
		0, 11, 0, 2}
	if _, err := cp.decodePacket(bytes.NewBuffer(f2Msg(1, 2, tmpl)), "10.0.0.1:4739"); err != nil {
		t.Fatalf("template refused in keep mode: %v", err)
	}
	rec := []byte{10, 1, 2, 3, 0xA1, 0xA2, 0xA3, 2, 0xB1, 0xB2, 0xBE, 0xEF}
	m, err := cp.decodePacket(bytes.NewBuffer(f2Msg(1, 300, rec)), "10.0.0.1:4739")
	if err != nil {
		t.Fatalf("data refused in keep mode: %v", err)
	}
	record := m.GetSet().GetRecords()[0]

	// The ordered list is right: 4 fields, the unknown ones with their bytes.
	els := record.GetOrderedElementList()
	if len(els) != 4 || !bytes.Equal(els[1].GetOctetArrayValue(), []byte{0xA1, 0xA2, 0xA3}) || !bytes.Equal(els[2].GetOctetArrayValue(), []byte{0xB1, 0xB2}) {
		t.Fatalf("ordered element list is wrong: %v", els)
	}

	// The map view of the same record.
	em := record.GetElementMap()
	found := map[string]bool{}
	for k, v := range em {
		switch val := v.(type) {
		case error:
			t.Errorf("GetElementMap()[%q] is an error instead of a value: %v", k, val)
		case []byte:
			found[string(val)] = true
		}
	}
	for _, want := range [][]byte{{0xA1, 0xA2, 0xA3}, {0xB1, 0xB2}} {
		if !found[string(want)] {
			t.Errorf("GetElementMap() of the keep-mode record does not hold the unknown field with bytes % X (map has %d entries for 4 fields: %v)", want, len(em), em)
		}
	}
}
