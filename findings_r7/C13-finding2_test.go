// FINDING 2 (property C13, clean tree): a deadline that is EQUAL to the instant of the scan is
// treated as reached when the scan decides to pop the flow (`!After(now)`) but as not reached
// when it decides to re-arm it (`Before(now)`). A flow in that position is handed to the callback
// and then dropped from the expiry queue while it stays in the flow table: it is never exported
// again, everything ingested for it afterwards is never delivered, and it is never removed.
// With ActiveExpiryTimeout left at its zero value (InitAggregationProcess accepts that) the
// situation arises deterministically, and one scan exports the flow TWICE before losing it:
// the first export re-arms the flow for "now + 0", which the same scan finds reached again.
//
// Place:   copy to WT/pkg/intermediate/finding2_test.go
// Run:     cd WT && go test -count=1 -race -timeout 120s -run 'TestFinding2' ./pkg/intermediate
// Result on the CLEAN tree: FAIL.
//
// Clauses: "no flow is exported twice for one deadline" (one ForAllExpiredFlowRecordsDo call, one
// elapsed deadline, two callbacks for the same flow) and "no delta is lost" (after that scan the
// flow is in the table - GetNumFlows/GetRecords show it and its counters keep growing - but it is
// in no queue: no later scan ever exports the deltas ingested after the first scan).
//
// Why legitimate: public API only; AggregationInput{ActiveExpiryTimeout: 0} is what a caller
// gets who only sets InactiveExpiryTimeout ("export when the flow has gone quiet"), and nothing
// refuses it. With non-zero timeouts the same two comparisons disagree whenever a scan's
// time.Now() equals a stored deadline to the nanosecond (not reproducible on demand, hence the
// zero timeout here); aggregate.go:265 uses After for both deadlines, aggregate.go:296/303 use
// Before.
package intermediate_test

import (
	"net"
	"testing"
	"time"

	"github.com/vmware/go-ipfix/pkg/entities"
	"github.com/vmware/go-ipfix/pkg/intermediate"
	"github.com/vmware/go-ipfix/pkg/registry"
)

func f2Msg(t testing.TB, srcPort uint16) *entities.Message {
	registry.LoadRegistry()
	ie := func(name string, ent uint32) *entities.InfoElement {
		e, err := registry.GetInfoElement(name, ent)
		if err != nil {
			t.Fatal(err)
		}
		return e
	}
	elements := []entities.InfoElementWithValue{
		entities.NewIPAddressInfoElement(ie("sourceIPv4Address", 0), net.ParseIP("10.0.0.1").To4()),
		entities.NewIPAddressInfoElement(ie("destinationIPv4Address", 0), net.ParseIP("10.0.0.2").To4()),
		entities.NewUnsigned16InfoElement(ie("sourceTransportPort", 0), srcPort),
		entities.NewUnsigned16InfoElement(ie("destinationTransportPort", 0), 443),
		entities.NewUnsigned8InfoElement(ie("protocolIdentifier", 0), 6),
		entities.NewUnsigned8InfoElement(ie("flowType", registry.AntreaEnterpriseID), registry.FlowTypeIntraNode),
	}
	set := entities.NewSet(true)
	if err := set.PrepareSet(entities.Data, 256); err != nil {
		t.Fatal(err)
	}
	if err := set.AddRecord(elements, 256); err != nil {
		t.Fatal(err)
	}
	m := entities.NewMessage(true)
	m.SetVersion(10)
	m.SetObsDomainID(1)
	m.SetExportAddress("127.0.0.1")
	m.AddSet(set)
	return m
}

func TestFinding2_FlowExportedTwiceThenNeverAgain(t *testing.T) {
	ap, err := intermediate.InitAggregationProcess(intermediate.AggregationInput{
		MessageChan:           make(chan *entities.Message),
		WorkerNum:             1,
		InactiveExpiryTimeout: time.Hour, // ActiveExpiryTimeout is left unset
	})
	if err != nil {
		t.Fatal(err)
	}
	if err := ap.AggregateMsgByFlowKey(f2Msg(t, 1000)); err != nil {
		t.Fatal(err)
	}
	exports := 0
	visit := func(intermediate.FlowKey, *intermediate.AggregationFlowRecord) error { exports++; return nil }

	time.Sleep(2 * time.Millisecond)
	if err := ap.ForAllExpiredFlowRecordsDo(visit); err != nil {
		t.Fatal(err)
	}
	if exports != 1 {
		t.Errorf("first scan: the flow was handed to the callback %d times, want 1", exports)
	}

	// The flow is alive (inactive timeout one hour) and keeps receiving records; with an active
	// timeout of zero every later scan has to export it.
	for i := 0; i < 3; i++ {
		if err := ap.AggregateMsgByFlowKey(f2Msg(t, 1000)); err != nil {
			t.Fatal(err)
		}
		time.Sleep(2 * time.Millisecond)
		exports = 0
		if err := ap.ForAllExpiredFlowRecordsDo(visit); err != nil {
			t.Fatal(err)
		}
		if exports != 1 {
			t.Errorf("scan %d after further records: %d exports, want 1 (GetNumFlows=%d: the flow is held but no longer queued)", i+2, exports, ap.GetNumFlows())
		}
	}
}
