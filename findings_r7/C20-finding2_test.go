// Finding 2 for property C20 (part B, round 7) - fails on the CLEAN tree.
//
// Place:   copy to WT/cmd/collector/finding2_test.go   (package main, in-package test)
// Run:     cd WT && go test -count=1 -timeout 120s -run 'TestFinding2' ./cmd/collector
//
// Clause violated: "Every field of every record of a message appears, by element name and value,
// in that message's rendered entry."
//
// Inputs (tcp, the binary's default transport; pipeline of run()):
//   (a) ONE message that holds a template set (template 256 = {octetDeltaCount}) followed by a
//       data set for that template with the record {77}. This is how almost every exporter other
//       than this library's own starts a session (RFC 7011 section 3: a message is a header
//       followed by one or more sets). The message is accepted and stored; its entry shows the
//       template record only, the data record is dropped without a word.
//   (b) ONE template set that holds two template records (256 = {octetDeltaCount},
//       257 = {packetDeltaCount}), then a data message for 257 with the record {5}. The first
//       message is accepted and stored; its entry shows TEMPLATE RECORD-0 only. Template 257 is
//       silently not learnt, so the data message is refused and the connection closed.
//   (c) ONE message with two data sets ({11} and {22}) for a known template: only the first set
//       is rendered.
// The collecting process decodes the first set of a message and the first record of a template
// set and ignores the rest (pkg/collector/process.go decodePacket / decodeTemplateSet,
// entities.Message holds one set: "TODO: Currently, it supports only one set").
//
// Why legitimate: all three are plain RFC 7011 messages which the collector accepts (it stores an
// entry for each and keeps the connection open); a test that only feeds the collector from the
// library's exporter (one set per message, one template per set) never sees this.
package main

import (
	"encoding/binary"
	"encoding/json"
	"net"
	"net/http"
	"net/http/httptest"
	"strings"
	"testing"
	"time"

	"github.com/vmware/go-ipfix/pkg/collector"
	"github.com/vmware/go-ipfix/pkg/registry"
)

func f2StoreLen() int {
	mutex.Lock()
	defer mutex.Unlock()
	return len(flowRecords)
}

// f2Start runs the pipeline of run(): collecting process with run()'s parameters (ephemeral
// port), every delivered message goes to addIPFIXMessage.
func f2Start(t *testing.T) net.Conn {
	registry.LoadRegistry()
	mutex.Lock()
	flowRecords = nil
	mutex.Unlock()
	cp, err := collector.InitCollectingProcess(collector.CollectorInput{
		Address:       "127.0.0.1:0",
		Protocol:      "tcp",
		MaxBufferSize: 65535,
		TemplateTTL:   0,
	})
	if err != nil {
		t.Fatal(err)
	}
	go func() {
		go cp.Start()
		for message := range cp.GetMsgChan() {
			addIPFIXMessage(message)
		}
	}()
	deadline := time.Now().Add(10 * time.Second)
	for cp.GetAddress() == nil {
		if time.Now().After(deadline) {
			t.Fatal("collector did not start")
		}
		time.Sleep(5 * time.Millisecond)
	}
	conn, err := net.Dial("tcp", cp.GetAddress().String())
	if err != nil {
		t.Fatal(err)
	}
	t.Cleanup(func() {
		conn.Close()
		cp.Stop()
		mutex.Lock()
		flowRecords = nil
		mutex.Unlock()
	})
	return conn
}

func f2Message(seq uint32, setID uint16, body []byte) []byte {
	b := make([]byte, 16)
	binary.BigEndian.PutUint16(b[0:], 10)
	binary.BigEndian.PutUint16(b[2:], uint16(16+4+len(body)))
	binary.BigEndian.PutUint32(b[4:], 1700000000)
	binary.BigEndian.PutUint32(b[8:], seq)
	binary.BigEndian.PutUint32(b[12:], 1)
	b = binary.BigEndian.AppendUint16(b, setID)
	b = binary.BigEndian.AppendUint16(b, uint16(4+len(body)))
	return append(b, body...)
}

func f2U16(vs ...uint16) []byte {
	var b []byte
	for _, v := range vs {
		b = binary.BigEndian.AppendUint16(b, v)
	}
	return b
}

func f2U32(vs ...uint32) []byte {
	var b []byte
	for _, v := range vs {
		b = binary.BigEndian.AppendUint32(b, v)
	}
	return b
}

// f2SendAndWait writes one message and waits until the store has grown by one entry.
func f2SendAndWait(t *testing.T, conn net.Conn, msg []byte, what string) {
	want := f2StoreLen() + 1
	if _, err := conn.Write(msg); err != nil {
		t.Fatalf("%s: write: %v", what, err)
	}
	deadline := time.Now().Add(5 * time.Second)
	for f2StoreLen() < want {
		if time.Now().After(deadline) {
			t.Fatalf("%s: the message was not stored (refused by the collector?)", what)
		}
		time.Sleep(2 * time.Millisecond)
	}
}

func f2Records(t *testing.T) []string {
	rr := httptest.NewRecorder()
	flowRecordHandler(rr, httptest.NewRequest(http.MethodGet, "/records?format=json", nil))
	if rr.Code != http.StatusOK {
		t.Fatalf("GET /records: status %d", rr.Code)
	}
	var resp jsonResponse
	if err := json.Unmarshal(rr.Body.Bytes(), &resp); err != nil {
		t.Fatal(err)
	}
	return resp.FlowRecords
}

func f2U64(vs ...uint64) []byte {
	var b []byte
	for _, v := range vs {
		b = binary.BigEndian.AppendUint64(b, v)
	}
	return b
}

// f2Set returns one set (header and body).
func f2Set(setID uint16, body []byte) []byte {
	b := f2U16(setID, uint16(4+len(body)))
	return append(b, body...)
}

// f2MessageOfSets returns a message holding the given sets.
func f2MessageOfSets(seq uint32, sets ...[]byte) []byte {
	n := 16
	for _, s := range sets {
		n += len(s)
	}
	b := make([]byte, 16)
	binary.BigEndian.PutUint16(b[0:], 10)
	binary.BigEndian.PutUint16(b[2:], uint16(n))
	binary.BigEndian.PutUint32(b[4:], 1700000000)
	binary.BigEndian.PutUint32(b[8:], seq)
	binary.BigEndian.PutUint32(b[12:], 1)
	for _, s := range sets {
		b = append(b, s...)
	}
	return b
}

func TestFinding2TemplateSetAndDataSetInOneMessage(t *testing.T) {
	conn := f2Start(t)
	msg := f2MessageOfSets(0,
		f2Set(2, f2U16(256, 1, 1, 8)),
		f2Set(256, f2U64(77)))
	f2SendAndWait(t, conn, msg, "template+data message")
	entries := f2Records(t)
	if len(entries) != 1 {
		t.Fatalf("%d entries stored, want 1", len(entries))
	}
	if !strings.Contains(entries[0], "octetDeltaCount: 77 ") {
		t.Errorf("the message's data record {octetDeltaCount: 77} is not in its entry:\n%s", entries[0])
	}
}

func TestFinding2TwoTemplateRecordsInOneSet(t *testing.T) {
	conn := f2Start(t)
	msg := f2MessageOfSets(0, f2Set(2, f2U16(256, 1, 1, 8, 257, 1, 2, 8)))
	f2SendAndWait(t, conn, msg, "template message")
	entries := f2Records(t)
	if len(entries) != 1 {
		t.Fatalf("%d entries stored, want 1", len(entries))
	}
	for _, want := range []string{"octetDeltaCount: len=8", "packetDeltaCount: len=8"} {
		if !strings.Contains(entries[0], want) {
			t.Errorf("the template message's entry lacks %q:\n%s", want, entries[0])
		}
	}
	// data for the second template of that set
	want := f2StoreLen() + 1
	if _, err := conn.Write(f2MessageOfSets(0, f2Set(257, f2U64(5)))); err != nil {
		t.Fatal(err)
	}
	deadline := time.Now().Add(3 * time.Second)
	for f2StoreLen() < want && time.Now().Before(deadline) {
		time.Sleep(2 * time.Millisecond)
	}
	if f2StoreLen() < want {
		t.Errorf("the data message for template 257 (defined by the second record of the accepted template set) was refused")
	}
}

func TestFinding2TwoDataSetsInOneMessage(t *testing.T) {
	conn := f2Start(t)
	f2SendAndWait(t, conn, f2MessageOfSets(0, f2Set(2, f2U16(256, 1, 1, 8))), "template message")
	msg := f2MessageOfSets(0, f2Set(256, f2U64(11)), f2Set(256, f2U64(22)))
	f2SendAndWait(t, conn, msg, "message with two data sets")
	entries := f2Records(t)
	if len(entries) != 2 {
		t.Fatalf("%d entries stored, want 2", len(entries))
	}
	for _, want := range []string{"octetDeltaCount: 11 ", "octetDeltaCount: 22 "} {
		if !strings.Contains(entries[1], want) {
			t.Errorf("the data message's entry lacks %q:\n%s", want, entries[1])
		}
	}
}
