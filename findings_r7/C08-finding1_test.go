// FINDING 1 (property C08) - on the UNCHANGED library, a template message sent by the UDP
// template-refresh goroutine can leave the socket AFTER a data message while carrying the
// sequence number from BEFORE it: the sequence numbers seen by the collector go backwards.
//
// Place:   copy to WT/pkg/exporter/finding1_test.go
// Run:     cd WT && go test -count=1 -timeout 120s -run 'TestFinding1_RefreshedTemplateCarriesStaleSequenceNumber' ./pkg/exporter
//
// Clause violated: "the sequence number in each transmitted message equals the number of data
// records carried by all data messages transmitted so far including that message" (for the
// template message: the count of all data records transmitted before it).
//
// Why: createAndSendIPFIXMsg() reads the counter (atomic.LoadUint32 for a template set,
// atomic.AddUint32 for a data set), then builds the message, then calls Write on the socket.
// The three steps are not one critical section. On udp the library itself runs a second
// sender, the template refresh goroutine started by InitExportingProcess. Schedule:
//      refresh goroutine : seq := Load()           -> S
//      application       : seq := Add(n)           -> S+n ; Write(data message, seq S+n)
//      refresh goroutine : Write(template message, seq S)
// The collector receives  data(S+n)  and then  template(S) : the template message does not
// carry the number of data records transmitted so far, and a collector that uses the sequence
// number to detect loss (RFC 7011, 3.1) sees the stream jump backwards by n.
//
// Why the input is legitimate: only the public API is used, every call succeeds, and the
// application is strictly sequential (ONE goroutine calls SendSet). The only concurrency is the
// library's own refresh goroutine (TempRefTimeout = 1 s, an accepted configuration; with the
// default of 600 s the same interleaving is possible at every tick, just less often per hour).
// An exporter that keeps a few hundred templates and exports continuously is ordinary (one
// template per record layout / per tenant).
//
// The test observes real datagrams on a loopback udp socket. It only flags a sequence number
// that is SMALLER than one received earlier from the same exporting process; neither datagram
// loss nor the 2^32 wrap (never approached here) can produce that. The schedule is not forced:
// the test sends data while the refresh goroutine ticks and stops at the first violation.
// Observed on the clean tree: 20 of 20 runs fail, normally during the first or second tick.
package exporter_test

import (
	"encoding/binary"
	"net"
	"sync"
	"sync/atomic"
	"testing"
	"time"

	"github.com/vmware/go-ipfix/pkg/entities"
	"github.com/vmware/go-ipfix/pkg/exporter"
	"github.com/vmware/go-ipfix/pkg/registry"
)

func TestFinding1_RefreshedTemplateCarriesStaleSequenceNumber(t *testing.T) {
	registry.LoadRegistry()

	const (
		numTemplates = 400
		recsPerSet   = 3
		maxDuration  = 60 * time.Second
	)

	pc, err := net.ListenUDP("udp", &net.UDPAddr{IP: net.IPv4(127, 0, 0, 1)})
	if err != nil {
		t.Fatal(err)
	}
	defer pc.Close()
	_ = pc.SetReadBuffer(16 << 20)

	type violation struct {
		prevSeq, seq uint32
		prevSet, set uint16
		index        int
	}
	var (
		violCh   = make(chan violation, 1)
		received atomic.Int64
		wg       sync.WaitGroup
	)
	wg.Add(1)
	go func() {
		defer wg.Done()
		buf := make([]byte, 65536)
		var lastSeq uint32
		var lastSet uint16
		n := 0
		for {
			l, _, err := pc.ReadFromUDP(buf)
			if err != nil {
				return
			}
			if l < 20 {
				continue
			}
			seq := binary.BigEndian.Uint32(buf[8:12])
			setID := binary.BigEndian.Uint16(buf[16:18])
			if n > 0 && seq < lastSeq {
				select {
				case violCh <- violation{lastSeq, seq, lastSet, setID, n}:
				default:
				}
			}
			lastSeq, lastSet = seq, setID
			n++
			received.Add(1)
		}
	}()

	ep, err := exporter.InitExportingProcess(exporter.ExporterInput{
		CollectorAddress:    pc.LocalAddr().String(),
		CollectorProtocol:   "udp",
		ObservationDomainID: 7,
		TempRefTimeout:      1,
	})
	if err != nil {
		t.Fatal(err)
	}
	defer ep.CloseConnToCollector()

	ie, err := registry.GetInfoElement("octetDeltaCount", registry.IANAEnterpriseID)
	if err != nil {
		t.Fatal(err)
	}

	// The application registers its templates ...
	ids := make([]uint16, numTemplates)
	for i := range ids {
		ids[i] = ep.NewTemplateID()
		ts := entities.NewSet(false)
		if err := ts.PrepareSet(entities.Template, ids[i]); err != nil {
			t.Fatal(err)
		}
		el, _ := entities.DecodeAndCreateInfoElementWithValue(ie, nil)
		if err := ts.AddRecord([]entities.InfoElementWithValue{el}, ids[i]); err != nil {
			t.Fatal(err)
		}
		if _, err := ep.SendSet(ts); err != nil {
			t.Fatal(err)
		}
	}

	// ... and then exports data, from this one goroutine only.
	deadline := time.Now().Add(maxDuration)
	sent := int64(numTemplates)
	for i := 0; time.Now().Before(deadline); i++ {
		id := ids[i%numTemplates]
		ds := entities.NewSet(false)
		if err := ds.PrepareSet(entities.Data, id); err != nil {
			t.Fatal(err)
		}
		for r := 0; r < recsPerSet; r++ {
			el := entities.NewUnsigned64InfoElement(ie, uint64(i))
			if err := ds.AddRecord([]entities.InfoElementWithValue{el}, id); err != nil {
				t.Fatal(err)
			}
		}
		if _, err := ep.SendSet(ds); err != nil {
			t.Fatalf("SendSet(data) failed: %v", err)
		}
		sent++
		// Do not outrun the receiver by more than a few hundred datagrams (keeps loss out of
		// the picture; the check does not depend on it).
		for w := 0; sent-received.Load() > 200 && w < 1000; w++ {
			time.Sleep(10 * time.Microsecond)
		}
		select {
		case v := <-violCh:
			kind := func(set uint16) string {
				if set == entities.TemplateSetID {
					return "template"
				}
				return "data"
			}
			t.Fatalf("datagram #%d (%s message, set id %d) carries sequence number %d, but the %s message received just before it (set id %d) already carried %d: "+
				"the later message does not carry the number of data records transmitted so far (sequence went backwards by %d)",
				v.index, kind(v.set), v.set, v.seq, kind(v.prevSet), v.prevSet, v.prevSeq, v.prevSeq-v.seq)
		default:
		}
	}
}
