// Finding 3 for property C19 (CLEAN tree): field values of a record for which the proto schema
// HAS a field are published as zero / empty.
//
// Place:   copy to WT/pkg/kafka/producer/convertor/test/finding3_test.go
// Run:     cd WT && go test -count=1 -timeout 120s -run 'TestFinding3' ./pkg/kafka/producer/convertor/test
//
// Clause violated: "Each payload is ... protobuf which decode[s] to the record's field values
// ...; the consumer-side decoder ... recovers the same field values" (quantified over "both
// shipped proto schemas").
//   - FlowType2 declares FlowEndReason (35) and TcpState (36) - the only two fields that set it
//     apart from FlowType1 - but addAllFieldsToFlowType2 has no case for "flowEndReason" or
//     "tcpState": a record with flowEndReason=3, tcpState="TIME_WAIT" is published with
//     FlowEndReason=0, TcpState="" (and a warning claims that the schema has no such field).
//   - Both schemas declare TimeFlowStartInMilliSecs (27) and TimeFlowEndInMilliSecs (28), and
//     neither convertor fills them from flowStartMilliseconds / flowEndMilliseconds.
// A consumer cannot tell "0 / empty" from "never converted".
//
// Why the input is legitimate: flowEndReason (IANA 136), flowStartMilliseconds (152),
// flowEndMilliseconds (153) and tcpState (Antrea 136) are elements of the registries shipped
// with the library; Antrea's flow records (the records this schema was written for) carry
// flowEndReason and tcpState in every record. The record below is built the same way the
// package's own TestKafkaProducer_Publish builds its records.
//
// (This reading takes "the record's field values" to mean the values of all elements that have
// a counterpart in the schema; if only the elements handled by the convertor's switch are meant,
// this is a gap of the convertor rather than of the property.)
package test

import (
	"testing"

	"github.com/IBM/sarama"
	saramamock "github.com/IBM/sarama/mocks"
	"google.golang.org/protobuf/proto"

	"github.com/vmware/go-ipfix/pkg/entities"
	"github.com/vmware/go-ipfix/pkg/kafka/producer"
	"github.com/vmware/go-ipfix/pkg/kafka/producer/protobuf"
	"github.com/vmware/go-ipfix/pkg/registry"
)

func TestFinding3SchemaFieldsNeverFilled(t *testing.T) {
	endReason, err := registry.GetInfoElement("flowEndReason", registry.IANAEnterpriseID)
	if err != nil {
		t.Fatal(err)
	}
	startMs, _ := registry.GetInfoElement("flowStartMilliseconds", registry.IANAEnterpriseID)
	endMs, _ := registry.GetInfoElement("flowEndMilliseconds", registry.IANAEnterpriseID)
	tcpState, err := registry.GetInfoElement("tcpState", registry.AntreaEnterpriseID)
	if err != nil {
		t.Fatal(err)
	}
	port, _ := registry.GetInfoElement("sourceTransportPort", registry.IANAEnterpriseID)

	set := entities.NewSet(true)
	_ = set.PrepareSet(entities.Data, 256)
	if err := set.AddRecord([]entities.InfoElementWithValue{
		entities.NewUnsigned16InfoElement(port, 443),
		entities.NewUnsigned8InfoElement(endReason, 3),
		entities.NewStringInfoElement(tcpState, "TIME_WAIT"),
		entities.NewDateTimeMillisecondsInfoElement(startMs, 1700000000123),
		entities.NewDateTimeMillisecondsInfoElement(endMs, 1234567), // fits the schema's uint32
	}, 256); err != nil {
		t.Fatal(err)
	}
	msg := entities.NewMessage(true)
	msg.SetVersion(10)
	msg.SetObsDomainID(1)
	msg.SetSequenceNum(1)
	msg.SetExportAddress("127.0.0.1")
	msg.AddSet(set)

	cfg := sarama.NewConfig()
	cfg.Producer.Return.Successes = true
	mock := saramamock.NewAsyncProducer(t, cfg)
	kp, err := producer.NewKafkaProducer(producer.ProducerInput{KafkaTopic: "flows", KafkaVersion: sarama.DefaultVersion, ProtoSchemaConvertor: NewFlowType2Convertor()})
	if err != nil {
		t.Fatal(err)
	}
	kp.SetSaramaProducer(mock)
	mock.ExpectInputAndSucceed()
	ch := make(chan *entities.Message, 1)
	ch <- msg
	close(ch)
	kp.PublishIPFIXMessages(ch)
	km := <-mock.Successes()
	b, _ := km.Value.Encode()
	f := &protobuf.FlowType2{}
	if err := proto.Unmarshal(b[4:], f); err != nil {
		t.Fatal(err)
	}
	if f.SrcPort != 443 {
		t.Fatalf("SrcPort = %d", f.SrcPort)
	}
	if f.FlowEndReason != 3 {
		t.Errorf("FlowType2.FlowEndReason = %d, the record says flowEndReason = 3", f.FlowEndReason)
	}
	if f.TcpState != "TIME_WAIT" {
		t.Errorf("FlowType2.TcpState = %q, the record says tcpState = \"TIME_WAIT\"", f.TcpState)
	}
	if f.TimeFlowStartInMilliSecs != 1700000000123 {
		t.Errorf("FlowType2.TimeFlowStartInMilliSecs = %d, the record says flowStartMilliseconds = 1700000000123", f.TimeFlowStartInMilliSecs)
	}
	if f.TimeFlowEndInMilliSecs != 1234567 {
		t.Errorf("FlowType2.TimeFlowEndInMilliSecs = %d, the record says flowEndMilliseconds = 1234567", f.TimeFlowEndInMilliSecs)
	}
	_ = mock.Close()
}
