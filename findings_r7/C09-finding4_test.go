// Finding 4 for property C09 - fails on the CLEAN tree.
//
// Place:  copy to WT/pkg/exporter/finding4_test.go
// Run:    cd WT && go test -count=1 -timeout 120s -run 'TestFinding4C09' ./pkg/exporter
//
// Clause violated: "SendSet never transmits a data set unless a template with that id was previously sent on the same
// exporting process and every record has that template's field count" - after a second template set
// for the same id has been transmitted, "that template" (the one the peer now holds) has one field,
// yet a two-field record is transmitted and the one-field record is refused.
//
// Why the input is legitimate: SendSet accepts and transmits the second template set (the peer, e.g. this library's collector,
// replaces its template), so the exporter itself put the new layout in force; re-defining a template
// id is what an application does when its record layout changes (RFC 7011 8.1 allows it over UDP after
// the template lifetime and after a withdrawal on TCP; the library has no withdrawal API, so sending
// the new template is the only way). updateTemplate silently keeps the FIRST layout (and the UDP refresh
// keeps re-sending it), so the exporter and the collector disagree from then on.
package exporter_test

import (
	"bytes"
	"net"
	"sync"
	"testing"
	"time"

	"github.com/vmware/go-ipfix/pkg/entities"
	"github.com/vmware/go-ipfix/pkg/exporter"
)

type f4Peer struct {
	mu  sync.Mutex
	buf []byte
}

func f4Start(t *testing.T) (*f4Peer, *exporter.ExportingProcess) {
	t.Helper()
	l, err := net.Listen("tcp", "127.0.0.1:0")
	if err != nil {
		t.Fatal(err)
	}
	t.Cleanup(func() { l.Close() })
	p := &f4Peer{}
	go func() {
		c, err := l.Accept()
		if err != nil {
			return
		}
		defer c.Close()
		b := make([]byte, 70000)
		for {
			n, err := c.Read(b)
			p.mu.Lock()
			p.buf = append(p.buf, b[:n]...)
			p.mu.Unlock()
			if err != nil {
				return
			}
		}
	}()
	ep, err := exporter.InitExportingProcess(exporter.ExporterInput{
		CollectorAddress:    l.Addr().String(),
		CollectorProtocol:   "tcp",
		ObservationDomainID: 1,
	})
	if err != nil {
		t.Fatal(err)
	}
	t.Cleanup(ep.CloseConnToCollector)
	return p, ep
}

// take returns (and forgets) everything that reached the peer socket so far; it waits long
// enough for loopback delivery of what has already been written.
func (p *f4Peer) take() []byte {
	time.Sleep(300 * time.Millisecond)
	p.mu.Lock()
	defer p.mu.Unlock()
	b := p.buf
	p.buf = nil
	return b
}

func f4Template(t *testing.T, ep *exporter.ExportingProcess, id uint16, ies ...*entities.InfoElement) {
	t.Helper()
	s, err := entities.MakeTemplateSet(id, ies)
	if err != nil {
		t.Fatal(err)
	}
	if _, err := ep.SendSet(s); err != nil {
		t.Fatalf("template set refused: %v", err)
	}
}

func f4DataSet(t *testing.T, id uint16, records ...[]entities.InfoElementWithValue) entities.Set {
	t.Helper()
	s := entities.NewSet(false)
	if err := s.PrepareSet(entities.Data, id); err != nil {
		t.Fatal(err)
	}
	for _, r := range records {
		if err := s.AddRecord(r, id); err != nil {
			t.Fatalf("AddRecord refused: %v", err)
		}
	}
	return s
}

func TestFinding4C09DataForSupersededTemplateIsTransmitted(t *testing.T) {
	peer, ep := f4Start(t)
	octets := entities.NewInfoElement("octetDeltaCount", 1, entities.Unsigned64, 0, 8)
	proto := entities.NewInfoElement("protocolIdentifier", 4, entities.Unsigned8, 0, 1)

	f4Template(t, ep, 256, octets, proto) // first layout: two fields
	f4Template(t, ep, 256, proto)         // second layout: one field - accepted and transmitted
	tm := peer.take()
	if len(tm) != 32+28 || !bytes.Equal(tm[32+20:32+24], []byte{1, 0, 0, 1}) {
		t.Fatalf("expected both template messages on the wire, got % x", tm)
	}

	// A record of the layout that was sent LAST (one field).
	newLayout := f4DataSet(t, 256, []entities.InfoElementWithValue{entities.NewUnsigned8InfoElement(proto, 6)})
	_, errNew := ep.SendSet(newLayout)
	wireNew := peer.take()

	// A record of the superseded layout (two fields).
	oldLayout := f4DataSet(t, 256, []entities.InfoElementWithValue{
		entities.NewUnsigned64InfoElement(octets, 5), entities.NewUnsigned8InfoElement(proto, 6)})
	_, errOld := ep.SendSet(oldLayout)
	wireOld := peer.take()

	if errOld == nil || len(wireOld) != 0 {
		t.Errorf("a 2-field record was transmitted for template 256 although the template last sent for that id has 1 field: err=%v, wire % x", errOld, wireOld)
	}
	if errNew != nil || len(wireNew) != 16+4+1 {
		t.Errorf("a record matching the template last sent for id 256 was refused: err=%v, %d bytes on the wire", errNew, len(wireNew))
	}
}
