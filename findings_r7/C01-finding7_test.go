// Finding 7 for property C01 (CLEAN tree): over DTLS, ONE message larger than the collecting
// process's MaxBufferSize ends the collector's reader for the session for good, silently:
// that message and EVERY later one - however small - is never delivered, while the exporter's
// SendSet keeps returning success. Over plain UDP with the same configuration only the
// oversize message is affected and later messages are delivered.
//
// Place:  cp OUT/finding7_test.go WT/pkg/exporter/finding7_test.go
// Run:    cd WT && go test -count=1 -timeout 120s -run 'TestFinding7DTLSReaderDiesOnOversizeMessage' ./pkg/exporter
//
// Clause violated: "Whatever template and data records an application hands to an exporting
// process are what a collecting process connected to it delivers ... over TCP, UDP, TLS and
// DTLS alike": the 10-record set (100 bytes) sent after the oversize one is a perfectly
// ordinary input that the same pair delivered a moment earlier.
//
// Mechanism: pkg/collector/udp.go (DTLS branch) does `size, err := conn.Read(buff)` with
// `if err != nil { if size == 0 { return } ... }`. pion/dtls returns a *temporary* error
// ("buffer is too small") with size 0 when a record does not fit the caller's buffer; the
// code takes any error with size 0 for "collector was stopped" and returns without a log
// line. The DTLS listener accepts exactly one connection, so nothing can be delivered after
// that until the collecting process is restarted.
//
// Why the input is legitimate: MaxBufferSize is a public configuration knob (operators set
// it from an MTU or memory budget; 512 is RFC 7011's default MTU assumption), the exporting
// process does not limit message sizes for UDP/DTLS and accepts the 820-byte set, and all
// later sets are small. A single outsized message must not silence the session.
package exporter_test

import (
	"crypto/ecdsa"
	"crypto/elliptic"
	"crypto/rand"
	"crypto/x509"
	"crypto/x509/pkix"
	"encoding/pem"
	"math/big"
	"net"
	"testing"
	"time"

	"github.com/vmware/go-ipfix/pkg/collector"
	"github.com/vmware/go-ipfix/pkg/entities"
	"github.com/vmware/go-ipfix/pkg/exporter"
	"github.com/vmware/go-ipfix/pkg/registry"
)

func f7Cert(t *testing.T) (certPEM, keyPEM []byte) {
	key, err := ecdsa.GenerateKey(elliptic.P256(), rand.Reader)
	if err != nil {
		t.Fatal(err)
	}
	tmpl := &x509.Certificate{
		SerialNumber:          big.NewInt(1),
		Subject:               pkix.Name{CommonName: "127.0.0.1"},
		NotBefore:             time.Now().Add(-time.Hour),
		NotAfter:              time.Now().Add(time.Hour),
		KeyUsage:              x509.KeyUsageDigitalSignature | x509.KeyUsageCertSign,
		ExtKeyUsage:           []x509.ExtKeyUsage{x509.ExtKeyUsageServerAuth},
		BasicConstraintsValid: true,
		IsCA:                  true,
		IPAddresses:           []net.IP{net.ParseIP("127.0.0.1")},
	}
	der, err := x509.CreateCertificate(rand.Reader, tmpl, tmpl, &key.PublicKey, key)
	if err != nil {
		t.Fatal(err)
	}
	kb, err := x509.MarshalECPrivateKey(key)
	if err != nil {
		t.Fatal(err)
	}
	return pem.EncodeToMemory(&pem.Block{Type: "CERTIFICATE", Bytes: der}),
		pem.EncodeToMemory(&pem.Block{Type: "EC PRIVATE KEY", Bytes: kb})
}

func f7Run(t *testing.T, encrypted bool) {
	registry.LoadRegistry()
	in := collector.CollectorInput{Address: "127.0.0.1:0", Protocol: "udp", MaxBufferSize: 512}
	ex := exporter.ExporterInput{CollectorProtocol: "udp", ObservationDomainID: 7}
	if encrypted {
		cert, key := f7Cert(t)
		in.IsEncrypted, in.ServerCert, in.ServerKey = true, cert, key
		ex.TLSClientConfig = &exporter.ExporterTLSClientConfig{CAData: cert, ServerName: "127.0.0.1"}
	}
	cp, err := collector.InitCollectingProcess(in)
	if err != nil {
		t.Fatal(err)
	}
	go cp.Start()
	defer cp.Stop()
	for i := 0; i < 500 && cp.GetAddress() == nil; i++ {
		time.Sleep(10 * time.Millisecond)
	}
	if cp.GetAddress() == nil {
		t.Fatal("collector did not start")
	}
	ex.CollectorAddress = cp.GetAddress().String()
	ep, err := exporter.InitExportingProcess(ex)
	if err != nil {
		t.Fatal(err)
	}
	defer ep.CloseConnToCollector()

	const templateID = 256
	ie, err := registry.GetInfoElement("octetDeltaCount", registry.IANAEnterpriseID)
	if err != nil {
		t.Fatal(err)
	}
	tmplElem, _ := entities.DecodeAndCreateInfoElementWithValue(ie, nil)
	tmpl := entities.NewSet(false)
	if err := tmpl.PrepareSet(entities.Template, templateID); err != nil {
		t.Fatal(err)
	}
	if err := tmpl.AddRecord([]entities.InfoElementWithValue{tmplElem}, templateID); err != nil {
		t.Fatal(err)
	}
	if _, err := ep.SendSet(tmpl); err != nil {
		t.Fatal(err)
	}
	select {
	case <-cp.GetMsgChan():
	case <-time.After(5 * time.Second):
		t.Fatal("template not delivered")
	}

	send := func(n int) *entities.Message {
		set := entities.NewSet(false)
		if err := set.PrepareSet(entities.Data, templateID); err != nil {
			t.Fatal(err)
		}
		for r := 0; r < n; r++ {
			if err := set.AddRecord([]entities.InfoElementWithValue{entities.NewUnsigned64InfoElement(ie, uint64(r+1))}, templateID); err != nil {
				t.Fatal(err)
			}
		}
		if _, err := ep.SendSet(set); err != nil {
			t.Fatalf("%d records: SendSet: %v", n, err)
		}
		select {
		case m := <-cp.GetMsgChan():
			return m
		case <-time.After(2 * time.Second):
			return nil
		}
	}
	if m := send(10); m == nil || m.GetSet().GetNumberOfRecords() != 10 {
		t.Fatal("the first small set (100-byte message) was not delivered as given")
	}
	// One 820-byte message, larger than the collector's 512-byte buffer. Whatever happens to
	// it (see finding 6 for plain UDP) is not what this test is about.
	send(100)
	// Ordinary small sets afterwards.
	for i := 0; i < 3; i++ {
		m := send(10)
		if m == nil {
			t.Errorf("small set %d after the oversize message: SendSet succeeded, nothing delivered", i+1)
		} else if m.GetSet().GetNumberOfRecords() != 10 {
			t.Errorf("small set %d after the oversize message: %d records delivered, 10 given", i+1, m.GetSet().GetNumberOfRecords())
		}
	}
}

func TestFinding7DTLSReaderDiesOnOversizeMessage(t *testing.T) {
	t.Run("udp", func(t *testing.T) { f7Run(t, false) })  // passes: later sets are delivered
	t.Run("dtls", func(t *testing.T) { f7Run(t, true) }) // fails on the clean tree
}
