// Finding 3 for property C09 - fails on the CLEAN tree.
//
// Place:  copy to WT/pkg/exporter/finding3_test.go
// Run:    cd WT && go test -count=1 -timeout 120s -run 'TestFinding3C09' ./pkg/exporter
//
// Clause violated: "A data record it does transmit carries each value faithfully: a value that cannot be encoded for
// its element (... wrong fixed length) yields an error rather than a silently altered field."
//
// Why the input is legitimate: fixed-length strings are ordinary IPFIX (e.g. interfaceName exported as string[8]); the library lets
// the application register or create a string element with a fixed length (NewInfoElement /
// registry.PutInfoElement), transmits the template with "length 8", and accepts the value in
// AddRecord. The data record is nevertheless encoded with a variable-length prefix (09 bytes: 08 "eth0-abc"),
// so what the template describes as the 8-byte string is "\x08eth0-ab" and a stray byte follows; SendSet
// reports success. (A value shorter than the announced length is refused only by accident, through
// the minimum-record-length check; a value of exactly the announced length, the correct one, is altered.)
package exporter_test

import (
	"bytes"
	"net"
	"sync"
	"testing"
	"time"

	"github.com/vmware/go-ipfix/pkg/entities"
	"github.com/vmware/go-ipfix/pkg/exporter"
)

type f3Peer struct {
	mu  sync.Mutex
	buf []byte
}

func f3Start(t *testing.T) (*f3Peer, *exporter.ExportingProcess) {
	t.Helper()
	l, err := net.Listen("tcp", "127.0.0.1:0")
	if err != nil {
		t.Fatal(err)
	}
	t.Cleanup(func() { l.Close() })
	p := &f3Peer{}
	go func() {
		c, err := l.Accept()
		if err != nil {
			return
		}
		defer c.Close()
		b := make([]byte, 70000)
		for {
			n, err := c.Read(b)
			p.mu.Lock()
			p.buf = append(p.buf, b[:n]...)
			p.mu.Unlock()
			if err != nil {
				return
			}
		}
	}()
	ep, err := exporter.InitExportingProcess(exporter.ExporterInput{
		CollectorAddress:    l.Addr().String(),
		CollectorProtocol:   "tcp",
		ObservationDomainID: 1,
	})
	if err != nil {
		t.Fatal(err)
	}
	t.Cleanup(ep.CloseConnToCollector)
	return p, ep
}

// take returns (and forgets) everything that reached the peer socket so far; it waits long
// enough for loopback delivery of what has already been written.
func (p *f3Peer) take() []byte {
	time.Sleep(300 * time.Millisecond)
	p.mu.Lock()
	defer p.mu.Unlock()
	b := p.buf
	p.buf = nil
	return b
}

func f3Template(t *testing.T, ep *exporter.ExportingProcess, id uint16, ies ...*entities.InfoElement) {
	t.Helper()
	s, err := entities.MakeTemplateSet(id, ies)
	if err != nil {
		t.Fatal(err)
	}
	if _, err := ep.SendSet(s); err != nil {
		t.Fatalf("template set refused: %v", err)
	}
}

func f3DataSet(t *testing.T, id uint16, records ...[]entities.InfoElementWithValue) entities.Set {
	t.Helper()
	s := entities.NewSet(false)
	if err := s.PrepareSet(entities.Data, id); err != nil {
		t.Fatal(err)
	}
	for _, r := range records {
		if err := s.AddRecord(r, id); err != nil {
			t.Fatalf("AddRecord refused: %v", err)
		}
	}
	return s
}

func TestFinding3C09FixedLengthStringSilentlyAltered(t *testing.T) {
	peer, ep := f3Start(t)
	ifName := entities.NewInfoElement("interfaceName", 82, entities.String, 0, 8) // string of fixed length 8
	f3Template(t, ep, 256, ifName)
	tmpl := peer.take()
	if len(tmpl) != 28 || !bytes.Equal(tmpl[24:28], []byte{0, 82, 0, 8}) {
		t.Fatalf("unexpected template message % x", tmpl)
	}

	set := f3DataSet(t, 256, []entities.InfoElementWithValue{entities.NewStringInfoElement(ifName, "eth0-abc")})
	n, err := ep.SendSet(set)
	wire := peer.take()
	if err != nil {
		if len(wire) != 0 {
			t.Fatalf("SendSet returned %v but wrote %d bytes", err, len(wire))
		}
		return // refusing the value is fine
	}
	if len(wire) < 20 || !bytes.Equal(wire[20:], []byte("eth0-abc")) {
		t.Fatalf("SendSet returned (%d, nil); the template announces an 8-byte field but the record on the wire is % x (%q), want % x",
			n, wire[20:], wire[20:], []byte("eth0-abc"))
	}
}
