// FINDING 3 (property C18, clean tree; BORDERLINE - see the caveat): a collector that is given
// a server certificate, a server key and a client CA, but whose IsEncrypted field was left at
// its zero value, silently ignores all three and accepts plaintext messages.
//
// Place:   copy to WT/pkg/collector/finding3_test.go
// Run:     cd WT && go test -count=1 -timeout 120s -run 'TestFinding3' ./pkg/collector
// Result:  FAILS on the clean tree (both sub-tests: tcp and udp).
//
// Clause concerned: "no configuration with security settings present results in messages being
// accepted from, or sent over, an unencrypted session".  CACert / ServerCert / ServerKey are
// security settings and they are present.
//
// Caveat: IsEncrypted=false can be read as an explicit request for plaintext, in which case
// the statement does not cover this cell.  It is reported because (a) false is the ZERO value
// of the field, so "forgot to set it" and "asked for plaintext" cannot be told apart, (b) the
// exporter side of the same library derives encryption from the presence of the settings
// (TLSClientConfig != nil) and has no such switch, and (c) nothing is logged or returned:
// InitCollectingProcess accepts the input and the three PEM blobs are never looked at.
//
// Why the input is legitimate: every field is a documented member of CollectorInput and the
// call sequence is the ordinary one (InitCollectingProcess, Start, plain exporter).
package collector

import (
	"crypto/ecdsa"
	"crypto/elliptic"
	"crypto/rand"
	"crypto/x509"
	"crypto/x509/pkix"
	"encoding/pem"
	"math/big"
	"net"
	"testing"
	"time"

	"github.com/vmware/go-ipfix/pkg/entities"
	"github.com/vmware/go-ipfix/pkg/exporter"
	"github.com/vmware/go-ipfix/pkg/registry"
)

func f3Certs(t *testing.T) (caPEM, certPEM, keyPEM []byte) {
	caKey, err := ecdsa.GenerateKey(elliptic.P256(), rand.Reader)
	if err != nil {
		t.Fatal(err)
	}
	caTmpl := &x509.Certificate{
		SerialNumber:          big.NewInt(1),
		Subject:               pkix.Name{CommonName: "finding3 CA"},
		NotBefore:             time.Now().Add(-time.Hour),
		NotAfter:              time.Now().Add(24 * time.Hour),
		IsCA:                  true,
		BasicConstraintsValid: true,
		KeyUsage:              x509.KeyUsageCertSign | x509.KeyUsageDigitalSignature,
	}
	caDER, err := x509.CreateCertificate(rand.Reader, caTmpl, caTmpl, &caKey.PublicKey, caKey)
	if err != nil {
		t.Fatal(err)
	}
	caCert, _ := x509.ParseCertificate(caDER)
	key, err := ecdsa.GenerateKey(elliptic.P256(), rand.Reader)
	if err != nil {
		t.Fatal(err)
	}
	tmpl := &x509.Certificate{
		SerialNumber: big.NewInt(2),
		Subject:      pkix.Name{CommonName: "collector"},
		NotBefore:    time.Now().Add(-time.Hour),
		NotAfter:     time.Now().Add(24 * time.Hour),
		KeyUsage:     x509.KeyUsageDigitalSignature,
		ExtKeyUsage:  []x509.ExtKeyUsage{x509.ExtKeyUsageServerAuth},
		IPAddresses:  []net.IP{net.ParseIP("127.0.0.1")},
	}
	der, err := x509.CreateCertificate(rand.Reader, tmpl, caCert, &key.PublicKey, caKey)
	if err != nil {
		t.Fatal(err)
	}
	keyDER, err := x509.MarshalECPrivateKey(key)
	if err != nil {
		t.Fatal(err)
	}
	return pem.EncodeToMemory(&pem.Block{Type: "CERTIFICATE", Bytes: caDER}),
		pem.EncodeToMemory(&pem.Block{Type: "CERTIFICATE", Bytes: der}),
		pem.EncodeToMemory(&pem.Block{Type: "EC PRIVATE KEY", Bytes: keyDER})
}

func TestFinding3_SecuritySettingsPresentButPlaintextAccepted(t *testing.T) {
	registry.LoadRegistry()
	caPEM, certPEM, keyPEM := f3Certs(t)
	for _, protocol := range []string{"tcp", "udp"} {
		t.Run(protocol, func(t *testing.T) {
			cp, err := InitCollectingProcess(CollectorInput{
				Address:       "127.0.0.1:0",
				Protocol:      protocol,
				MaxBufferSize: 1024,
				// IsEncrypted is left at its zero value.
				ServerCert: certPEM,
				ServerKey:  keyPEM,
				CACert:     caPEM,
			})
			if err != nil {
				t.Logf("configuration refused (fine): %v", err)
				return
			}
			go cp.Start()
			defer cp.Stop()
			deadline := time.Now().Add(5 * time.Second)
			for cp.GetAddress() == nil {
				if time.Now().After(deadline) {
					t.Log("collector is not listening (fine)")
					return
				}
				time.Sleep(10 * time.Millisecond)
			}
			delivered := make(chan *entities.Message, 16)
			go func() {
				for {
					select {
					case m := <-cp.GetMsgChan():
						delivered <- m
					case <-time.After(10 * time.Second):
						return
					}
				}
			}()
			ep, err := exporter.InitExportingProcess(exporter.ExporterInput{
				CollectorAddress:    cp.GetAddress().String(),
				CollectorProtocol:   protocol,
				ObservationDomainID: 3,
				// no TLSClientConfig: a plaintext peer
			})
			if err != nil {
				t.Logf("plaintext exporter refused (fine): %v", err)
				return
			}
			defer ep.CloseConnToCollector()
			ie, err := registry.GetInfoElement("sourceIPv4Address", registry.IANAEnterpriseID)
			if err != nil {
				t.Fatal(err)
			}
			set, err := entities.MakeTemplateSet(ep.NewTemplateID(), []*entities.InfoElement{ie})
			if err != nil {
				t.Fatal(err)
			}
			if _, err := ep.SendSet(set); err != nil {
				t.Logf("send failed (fine): %v", err)
			}
			select {
			case m := <-delivered:
				t.Fatalf("collector holding a server key pair and a client CA delivered a message (obs domain %d) "+
					"received over an unencrypted %s session", m.GetObsDomainID(), protocol)
			case <-time.After(2 * time.Second):
			}
		})
	}
}
