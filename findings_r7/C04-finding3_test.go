// Finding 3 for property C04 (clean tree): the field length that a template declares is
// ignored for every element the registry knows.
//
// Place:   copy to WT/pkg/collector/finding3_test.go
// Run:     cd WT && go test -count=1 -timeout 120s -run 'TestFinding3_' ./pkg/collector
// Result:  FAILS on the clean, unchanged tree.
//
// Clause violated: "A data set is decoded with the most recent valid template received for
// the same (observation domain, template id)". The template that was received says
// "octetDeltaCount in 4 octets" / "paddingOctets, 3 octets"; the layout the collector
// stores and decodes with is the registry's ("8 octets" / "variable length"), a definition
// nobody sent. decodeField (pkg/collector/process.go) reads elementLength from the wire
// and uses it only for elements that are NOT in the registry.
//
// Why the input is legitimate:
//   - RFC 7011 section 6.2, reduced-size encoding: unsigned64 counters exported in 4 octets
//     are the norm for many hardware exporters and for softflowd/pmacct/nProbe defaults.
//   - RFC 7011 section 3.3.1 / RFC 7012: record padding is done with paddingOctets (210) of a
//     FIXED length given in the template; the shipped registry lists it with length 65535.
//   - RFC 7011 section 7: any string/octetArray element may be exported with a fixed length.
// The template sets are accepted in every decoding mode, and the very same field
// specifiers are decoded correctly when the element is unknown (lenient modes), so the
// library does honour template lengths - just not for the elements it knows.
package collector

import (
	"encoding/binary"
	"fmt"
	"net"
	"testing"
	"time"

	"github.com/vmware/go-ipfix/pkg/entities"
	"github.com/vmware/go-ipfix/pkg/registry"
)

type f3Field struct {
	id  uint16
	len uint16
	pen uint32 // 0: IANA
}

// f3Msg builds one IPFIX message (RFC 7011, section 3.1) out of complete sets.
func f3Msg(dom uint32, sets ...[]byte) []byte {
	b := make([]byte, 16)
	for _, s := range sets {
		b = append(b, s...)
	}
	binary.BigEndian.PutUint16(b[0:], 10)
	binary.BigEndian.PutUint16(b[2:], uint16(len(b)))
	binary.BigEndian.PutUint32(b[4:], 1700000000)
	binary.BigEndian.PutUint32(b[8:], 0)
	binary.BigEndian.PutUint32(b[12:], dom)
	return b
}

// f3Set builds one set: header (set id, length) followed by body.
func f3Set(id uint16, body ...[]byte) []byte {
	b := make([]byte, 4)
	for _, x := range body {
		b = append(b, x...)
	}
	binary.BigEndian.PutUint16(b[0:], id)
	binary.BigEndian.PutUint16(b[2:], uint16(len(b)))
	return b
}

// f3Template builds one template record.
func f3Template(id uint16, fields ...f3Field) []byte {
	b := make([]byte, 4)
	binary.BigEndian.PutUint16(b[0:], id)
	binary.BigEndian.PutUint16(b[2:], uint16(len(fields)))
	for _, f := range fields {
		x := make([]byte, 4)
		binary.BigEndian.PutUint16(x[0:], f.id)
		binary.BigEndian.PutUint16(x[2:], f.len)
		if f.pen != 0 {
			x[0] |= 0x80
			x = binary.BigEndian.AppendUint32(x, f.pen)
		}
		b = append(b, x...)
	}
	return b
}

type f3Collector struct {
	t    *testing.T
	cp   *CollectingProcess
	msgs chan *entities.Message
}

// f3Start starts a tcp collector on the loopback interface (public API only).
func f3Start(t *testing.T, mode DecodingMode) *f3Collector {
	registry.LoadRegistry()
	cp, err := InitCollectingProcess(CollectorInput{
		Address: "127.0.0.1:0", Protocol: "tcp", MaxBufferSize: 65535, DecodingMode: mode,
	})
	if err != nil {
		t.Fatal(err)
	}
	go cp.Start()
	deadline := time.Now().Add(10 * time.Second)
	for cp.GetAddress() == nil {
		if time.Now().After(deadline) {
			t.Fatal("collector did not start")
		}
		time.Sleep(5 * time.Millisecond)
	}
	c := &f3Collector{t: t, cp: cp, msgs: make(chan *entities.Message, 16)}
	go func() {
		for m := range cp.GetMsgChan() {
			c.msgs <- m
		}
	}()
	t.Cleanup(func() { cp.Stop() })
	return c
}

// send writes one message on a connection of its own and returns what the collector
// delivered for it, or nil when the collector refused the message (it then closes the
// connection, which is how a tcp collector reports a message it cannot decode).
func (c *f3Collector) send(msg []byte) *entities.Message {
	conn, err := net.Dial("tcp", c.cp.GetAddress().String())
	if err != nil {
		c.t.Fatal(err)
	}
	defer conn.Close()
	if _, err := conn.Write(msg); err != nil {
		c.t.Fatal(err)
	}
	closed := make(chan struct{})
	go func() {
		conn.SetReadDeadline(time.Now().Add(10 * time.Second))
		conn.Read(make([]byte, 1))
		close(closed)
	}()
	select {
	case m := <-c.msgs:
		return m
	case <-closed:
		select {
		case m := <-c.msgs:
			return m
		case <-time.After(200 * time.Millisecond):
			return nil
		}
	}
}

func f3Dump(m *entities.Message) string {
	if m == nil {
		return "<refused>"
	}
	s := ""
	for i, r := range m.GetSet().GetRecords() {
		s += fmt.Sprintf("\n      record %d (template %d): %v", i, r.GetTemplateID(), r.GetElementMap())
	}
	return s
}

func TestFinding3_ReducedSizeEncoding(t *testing.T) {
	c := f3Start(t, DecodingModeStrict)
	// octetDeltaCount (1) and packetDeltaCount (2), unsigned64 in the registry, exported in 4 octets each
	if m := c.send(f3Msg(7, f3Set(2, f3Template(256, f3Field{id: 1, len: 4}, f3Field{id: 2, len: 4})))); m == nil {
		t.Skip("template refused: reduced-size encoding is reported as unsupported, nothing is decoded wrongly")
	}
	m := c.send(f3Msg(7, f3Set(256, []byte{0, 0, 0, 100, 0, 0, 0, 3, 0, 0, 0, 200, 0, 0, 0, 4})))
	if m == nil {
		t.Fatal("data set rejected although its template was accepted")
	}
	recs := m.GetSet().GetRecords()
	if len(recs) != 2 {
		t.Errorf("two records of 8 octets were sent, %d delivered:%s", len(recs), f3Dump(m))
	}
	want := [][2]uint64{{100, 3}, {200, 4}}
	for i, r := range recs {
		o, _, _ := r.GetInfoElementWithValue("octetDeltaCount")
		p, _, _ := r.GetInfoElementWithValue("packetDeltaCount")
		if i < 2 && (o.GetUnsigned64Value() != want[i][0] || p.GetUnsigned64Value() != want[i][1]) {
			t.Errorf("record %d: octetDeltaCount=%d packetDeltaCount=%d, want %d / %d",
				i, o.GetUnsigned64Value(), p.GetUnsigned64Value(), want[i][0], want[i][1])
		}
	}
}

func TestFinding3_FixedLengthPaddingOctets(t *testing.T) {
	c := f3Start(t, DecodingModeStrict)
	// sourceIPv4Address(4) protocolIdentifier(1) paddingOctets(3): records aligned to 8 octets
	tpl := f3Template(256, f3Field{id: 8, len: 4}, f3Field{id: 4, len: 1}, f3Field{id: 210, len: 3})
	if m := c.send(f3Msg(7, f3Set(2, tpl))); m == nil {
		t.Skip("template refused")
	}
	m := c.send(f3Msg(7, f3Set(256, []byte{
		10, 0, 0, 1, 6, 0, 0, 0,
		10, 0, 0, 2, 17, 0, 0, 0,
	})))
	if m == nil {
		t.Fatal("data set rejected although its template was accepted and the set is well-formed")
	}
	recs := m.GetSet().GetRecords()
	if len(recs) != 2 {
		t.Errorf("two records were sent, %d delivered:%s", len(recs), f3Dump(m))
	}
	wantIP := []string{"10.0.0.1", "10.0.0.2"}
	wantProto := []uint8{6, 17}
	for i, r := range recs {
		if i >= 2 {
			break
		}
		ip, _, _ := r.GetInfoElementWithValue("sourceIPv4Address")
		pr, _, _ := r.GetInfoElementWithValue("protocolIdentifier")
		if ip.GetIPAddressValue().String() != wantIP[i] || pr.GetUnsigned8Value() != wantProto[i] {
			t.Errorf("record %d: %v/%d, want %s/%d", i, ip.GetIPAddressValue(), pr.GetUnsigned8Value(), wantIP[i], wantProto[i])
		}
	}
}

func TestFinding3_FixedLengthString(t *testing.T) {
	c := f3Start(t, DecodingModeStrict)
	// interfaceName (82, string) exported as 8 octets, ingressInterface (10, 4 octets)
	if m := c.send(f3Msg(7, f3Set(2, f3Template(256, f3Field{id: 82, len: 8}, f3Field{id: 10, len: 4})))); m == nil {
		t.Skip("template refused")
	}
	m := c.send(f3Msg(7, f3Set(256, append([]byte("eth0\x00\x00\x00\x00"), 0, 0, 0, 2))))
	if m == nil {
		t.Fatal("data set rejected although its template was accepted and the set is well-formed")
	}
	r := m.GetSet().GetRecords()[0]
	name, _, _ := r.GetInfoElementWithValue("interfaceName")
	idx, _, _ := r.GetInfoElementWithValue("ingressInterface")
	if len(m.GetSet().GetRecords()) != 1 || name.GetStringValue()[:4] != "eth0" || idx.GetUnsigned32Value() != 2 {
		t.Errorf("record not decoded with the received template:%s", f3Dump(m))
	}
}
