// Finding 3 for property C01 (CLEAN tree): over DTLS every message longer than about 8 KiB is
// lost without a trace. ExportingProcess.SendSet returns the full byte count and no error,
// GetMsgSizeLimit() says 65535, the collecting process (MaxBufferSize 65535) delivers nothing
// and logs nothing; smaller messages before and after it are delivered. The same sets over
// plain UDP (and TCP/TLS) are delivered intact.
//
// Place:  cp OUT/finding3_test.go WT/pkg/exporter/finding3_test.go
// Run:    cd WT && go test -count=1 -timeout 120s -run 'TestFinding3DTLSLargeMessages' ./pkg/exporter
//
// Clause violated: "... the same number of records, and every field value bit-identical -
// over TCP, UDP, TLS and DTLS alike. This holds for ... any record count that fits one
// message." A data set of 1200 eight-byte records (9620 bytes) fits one message by every
// limit the library states or enforces (entities.MaxSocketMsgSize, GetMsgSizeLimit(),
// CreateIPFIXMsg's check) and is accepted by SendSet.
//
// Why the input is legitimate and where it goes wrong: the library hands whole IPFIX messages
// to pion/dtls as single records; pion's receive path reads datagrams into fixed 8192-byte
// buffers (dtls/v2 conn.go inboundBufferSize, transport udp listener receiveMTU), so a larger
// record arrives truncated, fails authentication and is discarded silently. The library
// neither limits the message size for this transport nor reports the loss. Flow exporters
// routinely batch records up to the advertised message limit.
package exporter_test

import (
	"crypto/ecdsa"
	"crypto/elliptic"
	"crypto/rand"
	"crypto/x509"
	"crypto/x509/pkix"
	"encoding/pem"
	"math/big"
	"net"
	"testing"
	"time"

	"github.com/vmware/go-ipfix/pkg/collector"
	"github.com/vmware/go-ipfix/pkg/entities"
	"github.com/vmware/go-ipfix/pkg/exporter"
	"github.com/vmware/go-ipfix/pkg/registry"
)

func f3Cert(t *testing.T) (certPEM, keyPEM []byte) {
	key, err := ecdsa.GenerateKey(elliptic.P256(), rand.Reader)
	if err != nil {
		t.Fatal(err)
	}
	tmpl := &x509.Certificate{
		SerialNumber:          big.NewInt(1),
		Subject:               pkix.Name{CommonName: "127.0.0.1"},
		NotBefore:             time.Now().Add(-time.Hour),
		NotAfter:              time.Now().Add(time.Hour),
		KeyUsage:              x509.KeyUsageDigitalSignature | x509.KeyUsageCertSign,
		ExtKeyUsage:           []x509.ExtKeyUsage{x509.ExtKeyUsageServerAuth},
		BasicConstraintsValid: true,
		IsCA:                  true,
		IPAddresses:           []net.IP{net.ParseIP("127.0.0.1")},
	}
	der, err := x509.CreateCertificate(rand.Reader, tmpl, tmpl, &key.PublicKey, key)
	if err != nil {
		t.Fatal(err)
	}
	kb, err := x509.MarshalECPrivateKey(key)
	if err != nil {
		t.Fatal(err)
	}
	return pem.EncodeToMemory(&pem.Block{Type: "CERTIFICATE", Bytes: der}),
		pem.EncodeToMemory(&pem.Block{Type: "EC PRIVATE KEY", Bytes: kb})
}

func f3Run(t *testing.T, encrypted bool) {
	registry.LoadRegistry()
	in := collector.CollectorInput{Address: "127.0.0.1:0", Protocol: "udp", MaxBufferSize: 65535}
	ex := exporter.ExporterInput{CollectorProtocol: "udp", ObservationDomainID: 7}
	if encrypted {
		cert, key := f3Cert(t)
		in.IsEncrypted, in.ServerCert, in.ServerKey = true, cert, key
		ex.TLSClientConfig = &exporter.ExporterTLSClientConfig{CAData: cert, ServerName: "127.0.0.1"}
	}
	cp, err := collector.InitCollectingProcess(in)
	if err != nil {
		t.Fatal(err)
	}
	go cp.Start()
	defer cp.Stop()
	for i := 0; i < 500 && cp.GetAddress() == nil; i++ {
		time.Sleep(10 * time.Millisecond)
	}
	if cp.GetAddress() == nil {
		t.Fatal("collector did not start")
	}
	ex.CollectorAddress = cp.GetAddress().String()
	ep, err := exporter.InitExportingProcess(ex)
	if err != nil {
		t.Fatal(err)
	}
	defer ep.CloseConnToCollector()
	if limit := ep.GetMsgSizeLimit(); limit != 65535 {
		t.Fatalf("message size limit announced by the exporting process is %d", limit)
	}

	const templateID = 256
	ie, err := registry.GetInfoElement("octetDeltaCount", registry.IANAEnterpriseID)
	if err != nil {
		t.Fatal(err)
	}
	tmplElem, _ := entities.DecodeAndCreateInfoElementWithValue(ie, nil)
	tmpl := entities.NewSet(false)
	if err := tmpl.PrepareSet(entities.Template, templateID); err != nil {
		t.Fatal(err)
	}
	if err := tmpl.AddRecord([]entities.InfoElementWithValue{tmplElem}, templateID); err != nil {
		t.Fatal(err)
	}
	if _, err := ep.SendSet(tmpl); err != nil {
		t.Fatal(err)
	}
	select {
	case <-cp.GetMsgChan():
	case <-time.After(5 * time.Second):
		t.Fatal("template not delivered")
	}

	// Data sets of 8-byte records: 100 records = 820 bytes ... 5000 records = 40020 bytes.
	for _, n := range []int{100, 1000, 1200, 2500, 5000, 100} {
		set := entities.NewSet(false)
		if err := set.PrepareSet(entities.Data, templateID); err != nil {
			t.Fatal(err)
		}
		for r := 0; r < n; r++ {
			if err := set.AddRecord([]entities.InfoElementWithValue{entities.NewUnsigned64InfoElement(ie, uint64(n)<<32|uint64(r))}, templateID); err != nil {
				t.Fatal(err)
			}
		}
		want := 20 + 8*n
		sent, err := ep.SendSet(set)
		if err != nil || sent != want {
			// A refusal would be acceptable behaviour; it is not what happens.
			t.Errorf("%d records: SendSet returned (%d, %v), message is %d bytes", n, sent, err, want)
			continue
		}
		select {
		case m := <-cp.GetMsgChan():
			recs := m.GetSet().GetRecords()
			if len(recs) != n {
				t.Errorf("%d records (%d-byte message) given, %d delivered", n, want, len(recs))
				continue
			}
			for r, rec := range recs {
				if v := rec.GetOrderedElementList()[0].GetUnsigned64Value(); v != uint64(n)<<32|uint64(r) {
					t.Errorf("%d records: record %d delivered with value %#x", n, r, v)
					break
				}
			}
		case <-time.After(3 * time.Second):
			t.Errorf("%d records (%d-byte message): SendSet reported %d bytes sent and no error, but nothing was delivered", n, want, sent)
		}
	}
}

func TestFinding3DTLSLargeMessages(t *testing.T) {
	t.Run("udp", func(t *testing.T) { f3Run(t, false) })  // passes
	t.Run("dtls", func(t *testing.T) { f3Run(t, true) }) // fails on the clean tree for 1200, 2500 and 5000 records
}
