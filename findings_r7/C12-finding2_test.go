// Finding 2 for property C12 (CLEAN tree): Stop on a UDP collecting process leaves the template
// expiry timers armed; each of them later starts a goroutine that runs the stopped process's
// code (takes its mutex, edits its template table, logs).
//
// Place: copy to WT/pkg/collector/finding2_test.go
// Run:   cd WT && go test -race -count=1 -timeout 120s -run TestFinding2NothingRunsAfterStop ./pkg/collector
//
// Clause violated: "Stop returns ... and afterwards no goroutine ... of the process remains."
//
// What happens: addTemplate arms one time.AfterFunc timer per template (UDP only). Stop closes
// stopChan and waits for the reader/client goroutines, but never stops these timers. When a
// timer fires (TemplateTTL after the last refresh: 1800 s by default, 1 s here) the runtime
// starts a new goroutine in (*CollectingProcess).addTemplate.func1, which logs "Template with
// id ... is expired", locks cp.mutex and deletes the template - in a process that was stopped
// long ago. Until then the timers also keep the whole CollectingProcess (template table
// included) reachable, so an application that stops and re-creates UDP collectors accumulates
// them for half an hour each.
//
// Why the input is legitimate: one exporter sends one ordinary template over UDP, the consumer
// receives it, the application calls Stop. TemplateTTL: 1 is a documented configuration field
// (it only shortens the wait; with the default the same goroutine appears 30 minutes later).
//
// Observed on the clean tree: about one second after Stop returned, a goroutine with
// collector.(*CollectingProcess).addTemplate.func1 on its stack writes the "is expired" log
// line; the test fails and prints that stack. Expected: Stop cancels the timers, nothing of
// the process runs afterwards. Deterministic (20 of 20 runs).
package collector_test

import (
	"bytes"
	"encoding/binary"
	"flag"
	"net"
	"runtime"
	"sync"
	"testing"
	"time"

	"k8s.io/klog/v2"

	"github.com/vmware/go-ipfix/pkg/collector"
	"github.com/vmware/go-ipfix/pkg/registry"
)

type finding2Sink struct {
	mu      sync.Mutex
	stopped bool
	stacks  []string
}

func (s *finding2Sink) Write(p []byte) (int, error) {
	s.mu.Lock()
	defer s.mu.Unlock()
	if s.stopped && bytes.Contains(p, []byte("is expired")) {
		buf := make([]byte, 4096)
		s.stacks = append(s.stacks, string(p)+string(buf[:runtime.Stack(buf, false)]))
	}
	return len(p), nil
}

func TestFinding2NothingRunsAfterStop(t *testing.T) {
	fs := flag.NewFlagSet("klog", flag.ContinueOnError)
	klog.InitFlags(fs)
	_ = fs.Set("logtostderr", "false")
	_ = fs.Set("alsologtostderr", "false")
	sink := &finding2Sink{}
	klog.SetOutput(sink)
	defer func() {
		klog.Flush()
		_ = fs.Set("logtostderr", "true")
	}()

	registry.LoadRegistry()
	cp, err := collector.InitCollectingProcess(collector.CollectorInput{
		Address:       "127.0.0.1:0",
		Protocol:      "udp",
		MaxBufferSize: 65535,
		TemplateTTL:   1,
	})
	if err != nil {
		t.Fatal(err)
	}
	go cp.Start()
	for deadline := time.Now().Add(5 * time.Second); cp.GetAddress() == nil; time.Sleep(time.Millisecond) {
		if time.Now().After(deadline) {
			t.Fatal("collector did not start")
		}
	}
	conn, err := net.Dial("udp", cp.GetAddress().String())
	if err != nil {
		t.Fatal(err)
	}
	defer conn.Close()
	// template 256: sourceIPv4Address(8)[4], packetDeltaCount(2)[8]
	msg := make([]byte, 16, 32)
	binary.BigEndian.PutUint16(msg[0:], 10)
	binary.BigEndian.PutUint16(msg[2:], 32)
	binary.BigEndian.PutUint32(msg[4:], uint32(time.Now().Unix()))
	binary.BigEndian.PutUint32(msg[12:], 7)
	msg = append(msg, 0, 2, 0, 16, 1, 0, 0, 2, 0, 8, 0, 4, 0, 2, 0, 8)
	if _, err := conn.Write(msg); err != nil {
		t.Fatal(err)
	}
	select {
	case <-cp.GetMsgChan():
	case <-time.After(5 * time.Second):
		t.Fatal("template message was not delivered")
	}

	stopped := make(chan struct{})
	go func() { cp.Stop(); close(stopped) }()
	select {
	case <-stopped:
	case <-time.After(5 * time.Second):
		t.Fatal("Stop did not return")
	}
	sink.mu.Lock()
	sink.stopped = true
	sink.mu.Unlock()

	// The process is stopped. Nothing of it may run any more.
	time.Sleep(2500 * time.Millisecond)
	klog.Flush()
	sink.mu.Lock()
	defer sink.mu.Unlock()
	for _, s := range sink.stacks {
		t.Errorf("a goroutine of the stopped collecting process ran after Stop had returned:\n%s", s)
	}
}
