// Finding 2 for property C02 on the CLEAN tree: fixed-length string elements.
//
// Place:   cp OUT/finding2_test.go WT/pkg/exporter/finding2_test.go
// Run:     cd WT && go test -count=1 -timeout 120s -run 'TestFinding2C02' ./pkg/exporter
//
// Clause violated: "data records carry each field big-endian at the template's width, or
// length-prefixed ... for variable-length elements": a string element registered with a FIXED
// length (RFC 7011 section 6.1.6 allows strings of fixed length; e.g. interfaceName in 16 octets,
// a 2-letter country code, a 36-character UUID) is announced in the template record with that
// width, but StringInfoElement.GetLength / the String encoder ignore InfoElement.Len and always
// emit a variable-length prefix. The template says "10 octets", the data record carries
// 0x0a + 10 octets; an independent decoder reads the prefix as the first character, shifts every
// following field by one octet and finds a stray octet at the end of the set.
// Every step is accepted: NewInfoElement(..., String, ..., 10), registry.PutInfoElement,
// template sent without error, AddRecord and SendSet without error (a value shorter than 9
// characters is refused by the exporter's minimum-length check, a value of exactly the declared
// length is not).
// Expected: the 10 octets of the value without prefix (octetArray elements of fixed length are
// handled that way), or a refusal. The test accepts a refusal.
package exporter_test

import (
	"encoding/binary"
	"fmt"
	"io"
	"net"
	"testing"
	"time"

	"github.com/vmware/go-ipfix/pkg/entities"
	"github.com/vmware/go-ipfix/pkg/exporter"
	"github.com/vmware/go-ipfix/pkg/registry"
)

type f2Field struct {
	id  uint16
	len uint16
	pen uint32
}

// f2Peer is a tcp peer that hands over whole messages as framed by the header length.
type f2Peer struct {
	ln   net.Listener
	msgs chan []byte
}

func f2NewPeer(t *testing.T) *f2Peer {
	ln, err := net.Listen("tcp", "127.0.0.1:0")
	if err != nil {
		t.Fatal(err)
	}
	p := &f2Peer{ln: ln, msgs: make(chan []byte, 64)}
	go func() {
		c, err := ln.Accept()
		if err != nil {
			return
		}
		defer c.Close()
		for {
			hdr := make([]byte, 16)
			if _, err := io.ReadFull(c, hdr); err != nil {
				return
			}
			l := int(binary.BigEndian.Uint16(hdr[2:4]))
			if l < 16 {
				p.msgs <- hdr
				return
			}
			rest := make([]byte, l-16)
			if _, err := io.ReadFull(c, rest); err != nil {
				return
			}
			p.msgs <- append(hdr, rest...)
		}
	}()
	return p
}

func (p *f2Peer) next(t *testing.T) []byte {
	t.Helper()
	select {
	case m := <-p.msgs:
		return m
	case <-time.After(5 * time.Second):
		t.Fatalf("no message arrived at the peer")
	}
	return nil
}

// f2Envelope checks the message header and the single set; returns set id and set body.
func f2Envelope(msg []byte) (uint16, []byte, error) {
	if len(msg) < 20 {
		return 0, nil, fmt.Errorf("message of %d bytes", len(msg))
	}
	if v := binary.BigEndian.Uint16(msg[0:2]); v != 10 {
		return 0, nil, fmt.Errorf("version %d", v)
	}
	if l := int(binary.BigEndian.Uint16(msg[2:4])); l != len(msg) {
		return 0, nil, fmt.Errorf("header length %d, %d bytes sent", l, len(msg))
	}
	setID := binary.BigEndian.Uint16(msg[16:18])
	if l := int(binary.BigEndian.Uint16(msg[18:20])); l != len(msg)-16 {
		return 0, nil, fmt.Errorf("set length %d does not cover the %d remaining bytes", l, len(msg)-16)
	}
	return setID, msg[20:], nil
}

// f2ParseTemplate decodes one template record that must fill the whole set body.
func f2ParseTemplate(body []byte) (uint16, []f2Field, error) {
	if len(body) < 4 {
		return 0, nil, fmt.Errorf("short template record")
	}
	id := binary.BigEndian.Uint16(body[0:2])
	n := int(binary.BigEndian.Uint16(body[2:4]))
	off := 4
	fields := make([]f2Field, 0, n)
	for i := 0; i < n; i++ {
		if off+4 > len(body) {
			return 0, nil, fmt.Errorf("template record truncated in field specifier %d", i)
		}
		f := f2Field{id: binary.BigEndian.Uint16(body[off:]), len: binary.BigEndian.Uint16(body[off+2:])}
		off += 4
		if f.id&0x8000 != 0 {
			if off+4 > len(body) {
				return 0, nil, fmt.Errorf("template record truncated in the enterprise number of field specifier %d", i)
			}
			f.id &= 0x7fff
			f.pen = binary.BigEndian.Uint32(body[off:])
			off += 4
		}
		fields = append(fields, f)
	}
	if off != len(body) {
		return 0, nil, fmt.Errorf("%d stray bytes after the template record", len(body)-off)
	}
	return id, fields, nil
}

// f2ParseData walks the set body with the template; returns the raw field values per record.
func f2ParseData(body []byte, fields []f2Field) ([][][]byte, error) {
	var recs [][][]byte
	off := 0
	for off < len(body) {
		var rec [][]byte
		for i, f := range fields {
			l := int(f.len)
			if f.len == 65535 {
				if off+1 > len(body) {
					return recs, fmt.Errorf("record %d field %d: no room for the length prefix", len(recs), i)
				}
				l = int(body[off])
				off++
				if l == 255 {
					if off+2 > len(body) {
						return recs, fmt.Errorf("record %d field %d: no room for the long length prefix", len(recs), i)
					}
					l = int(binary.BigEndian.Uint16(body[off:]))
					off += 2
				}
			}
			if off+l > len(body) {
				return recs, fmt.Errorf("record %d field %d: %d bytes announced, %d left in the set", len(recs), i, l, len(body)-off)
			}
			rec = append(rec, body[off:off+l])
			off += l
		}
		recs = append(recs, rec)
	}
	return recs, nil
}

func f2NewExporter(t *testing.T, p *f2Peer) *exporter.ExportingProcess {
	t.Helper()
	exp, err := exporter.InitExportingProcess(exporter.ExporterInput{
		CollectorAddress: p.ln.Addr().String(), CollectorProtocol: "tcp", ObservationDomainID: 7,
	})
	if err != nil {
		t.Fatal(err)
	}
	return exp
}

// f2SendTemplate sends a template through the public API and returns the field specifiers an
// independent decoder reads from the wire.
func f2SendTemplate(t *testing.T, exp *exporter.ExportingProcess, p *f2Peer, tid uint16, ies []*entities.InfoElement) ([]f2Field, error) {
	t.Helper()
	tset, err := entities.MakeTemplateSet(tid, ies)
	if err != nil {
		t.Fatalf("MakeTemplateSet: %v", err)
	}
	if _, err := exp.SendSet(tset); err != nil {
		t.Fatalf("SendSet(template): %v", err)
	}
	msg := p.next(t)
	setID, body, err := f2Envelope(msg)
	if err != nil {
		return nil, fmt.Errorf("template message % x: %v", msg, err)
	}
	if setID != 2 {
		return nil, fmt.Errorf("template message % x: set id %d", msg, setID)
	}
	gotID, fields, err := f2ParseTemplate(body)
	if err != nil {
		return nil, fmt.Errorf("template set % x: %v", body, err)
	}
	if gotID != tid || len(fields) != len(ies) {
		return nil, fmt.Errorf("template set % x: id %d with %d fields, want id %d with %d fields", body, gotID, len(fields), tid, len(ies))
	}
	return fields, nil
}

func TestFinding2C02_FixedLengthString(t *testing.T) {
	registry.LoadRegistry()
	const pen = 55555
	if err := registry.InitNewRegistry(pen); err != nil {
		t.Fatal(err)
	}
	if err := registry.PutInfoElement(*entities.NewInfoElement("siteCode", 200, entities.String, pen, 10), pen); err != nil {
		t.Fatal(err)
	}
	strIE, err := registry.GetInfoElement("siteCode", pen)
	if err != nil {
		t.Fatal(err)
	}
	portIE, err := registry.GetInfoElement("sourceTransportPort", registry.IANAEnterpriseID)
	if err != nil {
		t.Fatal(err)
	}
	p := f2NewPeer(t)
	defer p.ln.Close()
	exp := f2NewExporter(t, p)
	defer exp.CloseConnToCollector()
	tid := exp.NewTemplateID()
	fields, err := f2SendTemplate(t, exp, p, tid, []*entities.InfoElement{strIE, portIE})
	if err != nil {
		t.Fatal(err)
	}
	if fields[0].len != 10 {
		t.Fatalf("template announces width %d for the fixed-length string", fields[0].len)
	}
	dset := entities.NewSet(false)
	if err := dset.PrepareSet(entities.Data, tid); err != nil {
		t.Fatal(err)
	}
	elems := []entities.InfoElementWithValue{
		entities.NewStringInfoElement(strIE, "abcdefghij"), // exactly the declared 10 octets
		entities.NewUnsigned16InfoElement(portIE, 8080),
	}
	if err := dset.AddRecord(elems, tid); err != nil {
		t.Logf("refused (acceptable): %v", err)
		return
	}
	if _, err := exp.SendSet(dset); err != nil {
		t.Logf("refused (acceptable): %v", err)
		return
	}
	msg := p.next(t)
	setID, body, err := f2Envelope(msg)
	if err != nil || setID != tid {
		t.Fatalf("data message % x: set id %d, %v", msg, setID, err)
	}
	recs, err := f2ParseData(body, fields)
	if err != nil {
		t.Fatalf("data set % x cannot be decoded with the template (widths 10, 2): %v", body, err)
	}
	if len(recs) != 1 || string(recs[0][0]) != "abcdefghij" || binary.BigEndian.Uint16(recs[0][1]) != 8080 {
		t.Fatalf("data set % x decodes to %d record(s) %q, want one record \"abcdefghij\", 8080", body, len(recs), recs)
	}
}
