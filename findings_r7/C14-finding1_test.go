// Finding 1 (property C14, CLEAN tree): after the application re-defines a template id over
// UDP, the refresh goroutine keeps retransmitting the SUPERSEDED definition - the template
// that was sent last is never retransmitted, and the stale one overrides it at the
// collector every refresh interval.
//
// Place:   copy to WT/pkg/exporter/finding1_test.go
// Command: cd WT && go test -count=1 -timeout 60s -run 'TestFinding1_RefreshRetransmitsSupersededTemplate' ./pkg/exporter
//
// Clause violated: "An exporting process's own background work never corrupts what the
// application sends: over UDP every template sent so far is retransmitted each refresh
// interval as well-formed messages".
//
// Why the input is legitimate: every step is accepted by the library and goes out on the
// wire. SendSet accepts a template set for an id that was used before (no error, the new
// record is transmitted), and RFC 7011 section 8.4 foresees exactly this for UDP: "If a
// Collecting Process receives a new Template Record ... for an already-allocated Template ID,
// and that Template ... is different from the already-received Template, ... the Collecting
// Process MUST replace the Template". There is no public API to withdraw or delete a
// template (deleteTemplate is unexported and unused), so re-sending the id is the only way
// an application (e.g. one whose field list changes on reconfiguration) can change a layout.
// Here the application replaces destinationIPv4Address (4 bytes) by octetDeltaCount
// (8 bytes): the field count stays 2, the exporter accepts data records in the new layout
// (12 bytes) and sends them. ExportingProcess.updateTemplate however returns early when the
// id is known, so templatesMap keeps the first definition and one refresh interval later the
// background goroutine announces {sourceIPv4Address, destinationIPv4Address} again. A
// collector that follows the RFC now decodes the application's 12-byte records with an
// 8-byte layout: the stream the application sent is corrupted by the exporter's own
// background work, again at every interval.
package exporter

import (
	"bytes"
	"net"
	"testing"
	"time"

	"github.com/vmware/go-ipfix/pkg/entities"
)

func finding1TemplateSet(t *testing.T, id uint16, ies ...*entities.InfoElement) entities.Set {
	t.Helper()
	set := entities.NewSet(false)
	if err := set.PrepareSet(entities.Template, id); err != nil {
		t.Fatal(err)
	}
	elems := make([]entities.InfoElementWithValue, len(ies))
	for i, ie := range ies {
		e, err := entities.DecodeAndCreateInfoElementWithValue(ie, nil)
		if err != nil {
			t.Fatal(err)
		}
		elems[i] = e
	}
	if err := set.AddRecord(elems, id); err != nil {
		t.Fatal(err)
	}
	return set
}

func TestFinding1_RefreshRetransmitsSupersededTemplate(t *testing.T) {
	addr, _ := net.ResolveUDPAddr("udp", "127.0.0.1:0")
	server, err := net.ListenUDP("udp", addr)
	if err != nil {
		t.Fatal(err)
	}
	defer server.Close()
	msgs := make(chan []byte, 100)
	go func() {
		for {
			b := make([]byte, 65536)
			n, _, err := server.ReadFromUDP(b)
			if err != nil {
				close(msgs)
				return
			}
			msgs <- b[:n]
		}
	}()
	next := func(what string) []byte {
		select {
		case m, ok := <-msgs:
			if !ok {
				t.Fatalf("%s: socket closed", what)
			}
			return m
		case <-time.After(3 * time.Second):
			t.Fatalf("%s: nothing received within 3 s", what)
			return nil
		}
	}

	ep, err := InitExportingProcess(ExporterInput{
		CollectorAddress:    server.LocalAddr().String(),
		CollectorProtocol:   "udp",
		ObservationDomainID: 1,
		TempRefTimeout:      1,
	})
	if err != nil {
		t.Fatal(err)
	}
	defer ep.CloseConnToCollector()

	src := entities.NewInfoElement("sourceIPv4Address", 8, entities.Ipv4Address, 0, 4)
	dst := entities.NewInfoElement("destinationIPv4Address", 12, entities.Ipv4Address, 0, 4)
	octets := entities.NewInfoElement("octetDeltaCount", 1, entities.Unsigned64, 0, 8)

	id := ep.NewTemplateID()
	// 1. first definition
	if _, err := ep.SendSet(finding1TemplateSet(t, id, src, dst)); err != nil {
		t.Fatalf("first definition refused: %v", err)
	}
	first := next("first definition")
	// 2. the application re-defines the id; the library accepts and transmits it
	if _, err := ep.SendSet(finding1TemplateSet(t, id, src, octets)); err != nil {
		t.Fatalf("re-definition refused: %v", err)
	}
	second := next("re-definition")
	if bytes.Equal(first[16:], second[16:]) {
		t.Fatalf("test error: both definitions are equal on the wire")
	}
	// 3. data in the new layout is accepted and transmitted
	dataSet := entities.NewSet(false)
	if err := dataSet.PrepareSet(entities.Data, id); err != nil {
		t.Fatal(err)
	}
	if err := dataSet.AddRecord([]entities.InfoElementWithValue{
		entities.NewIPAddressInfoElement(src, net.ParseIP("10.0.0.1").To4()),
		entities.NewUnsigned64InfoElement(octets, 0x0102030405060708),
	}, id); err != nil {
		t.Fatal(err)
	}
	if _, err := ep.SendSet(dataSet); err != nil {
		t.Fatalf("data record in the re-defined layout refused: %v", err)
	}
	data := next("data record")
	if len(data) != 16+4+12 {
		t.Fatalf("data message has %d bytes, want 32", len(data))
	}
	// 4. one refresh interval later the background goroutine retransmits "the" template
	refreshed := next("refresh")
	if !bytes.Equal(refreshed[16:], second[16:]) {
		which := "neither definition"
		if bytes.Equal(refreshed[16:], first[16:]) {
			which = "the FIRST (superseded) definition"
		}
		t.Errorf("the refresh retransmitted %s\n  sent last (in force): % x\n  retransmitted:        % x\n"+
			"a collector now decodes the 12-byte records the application sends with an 8-byte layout",
			which, second[16:], refreshed[16:])
	}
}
