// Finding 2 for property C19 (CLEAN tree): with KafkaLogSuccesses switched on, one record that
// Kafka refuses stops the publication of everything that follows, for ever.
//
// Place:   copy to WT/pkg/kafka/producer/convertor/test/finding2_test.go
// Run:     cd WT && go test -count=1 -timeout 120s -run 'TestFinding2' ./pkg/kafka/producer/convertor/test
//
// Clause violated: "For every IPFIX message handed to the Kafka producer exactly one Kafka
// message is published per data record". After the refused record, the remaining records of the
// same IPFIX message and all later IPFIX messages get NO Kafka message: PublishIPFIXMessages
// never returns and never reads its channel again (so the collecting process that feeds it
// blocks, too).
//
// Why: SendFlowMessage, when KafkaLogSuccesses is set, waits for one value on
// producer.Successes() after every send. A send that fails is reported on Errors() (or nowhere,
// when KafkaLogErrors is off), never on Successes(), so the wait has no end.
//
// Why the input is legitimate: KafkaLogSuccesses / KafkaLogErrors are documented switches of
// ProducerInput (the test sets up sarama exactly as InitSaramaProducer does for them:
// Return.Successes = KafkaLogSuccesses, Return.Errors = KafkaLogErrors, errors drained by a
// goroutine). A produce request that fails (leader election, request timeout, record refused by
// the broker, retries used up) is ordinary Kafka operation; sarama's own mock models it with
// ExpectInputAndFail, the same mock that the property is observed at.
package test

import (
	"testing"
	"time"

	"github.com/IBM/sarama"
	saramamock "github.com/IBM/sarama/mocks"

	"github.com/vmware/go-ipfix/pkg/entities"
	"github.com/vmware/go-ipfix/pkg/kafka/producer"
	"github.com/vmware/go-ipfix/pkg/registry"
)

type finding2Reporter struct{ t *testing.T }

func (r finding2Reporter) Errorf(format string, args ...interface{}) {}

func finding2DataMsg(t *testing.T, seq uint32, ports ...uint16) *entities.Message {
	portIE, err := registry.GetInfoElement("sourceTransportPort", registry.IANAEnterpriseID)
	if err != nil {
		t.Fatal(err)
	}
	set := entities.NewSet(true)
	if err := set.PrepareSet(entities.Data, 256); err != nil {
		t.Fatal(err)
	}
	for _, p := range ports {
		if err := set.AddRecordV2([]entities.InfoElementWithValue{entities.NewUnsigned16InfoElement(portIE, p)}, 256); err != nil {
			t.Fatal(err)
		}
	}
	msg := entities.NewMessage(true)
	msg.SetVersion(10)
	msg.SetObsDomainID(1)
	msg.SetSequenceNum(seq)
	msg.SetExportAddress("127.0.0.1")
	msg.AddSet(set)
	return msg
}

func TestFinding2RefusedRecordStopsPublication(t *testing.T) {
	cfg := sarama.NewConfig()
	cfg.Producer.Return.Successes = true // KafkaLogSuccesses
	cfg.Producer.Return.Errors = true    // KafkaLogErrors
	mock := saramamock.NewAsyncProducer(finding2Reporter{t}, cfg)
	go func() { // what InitSaramaProducer starts when KafkaLogErrors is set
		for e := range mock.Errors() {
			t.Logf("Kafka refused a record: %v", e.Err)
		}
	}()
	kp, err := producer.NewKafkaProducer(producer.ProducerInput{
		KafkaTopic:           "flows",
		KafkaVersion:         sarama.DefaultVersion,
		KafkaLogSuccesses:    true,
		KafkaLogErrors:       true,
		ProtoSchemaConvertor: NewFlowType1Convertor(),
	})
	if err != nil {
		t.Fatal(err)
	}
	kp.SetSaramaProducer(mock)

	// Kafka takes the first record, refuses the second, and would take the other three
	mock.ExpectInputAndSucceed()
	mock.ExpectInputAndFail(sarama.ErrRequestTimedOut)
	mock.ExpectInputAndSucceed()
	mock.ExpectInputAndSucceed()
	mock.ExpectInputAndSucceed()

	msgs := make(chan *entities.Message)
	consumed := make(chan int, 2)
	go func() {
		msgs <- finding2DataMsg(t, 0, 1001, 1002, 1003) // records 1..3
		consumed <- 1
		msgs <- finding2DataMsg(t, 1, 1004, 1005) // records 4..5
		consumed <- 2
		close(msgs)
	}()
	done := make(chan struct{})
	go func() {
		kp.PublishIPFIXMessages(msgs)
		close(done)
	}()

	select {
	case <-done:
	case <-time.After(10 * time.Second):
		t.Errorf("PublishIPFIXMessages is stuck 10 s after Kafka refused one record: %d of 2 IPFIX messages were taken from the channel; "+
			"records 3, 4 and 5 were never handed to sarama (expected: one Kafka message for each of them)", len(consumed))
	}
}
