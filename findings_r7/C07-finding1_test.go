// FINDING 1 (property C07) - clean tree.
//
// Place:   copy to WT/pkg/intermediate/finding1_test.go
// Run:     cd WT && go test -count=1 -timeout 120s -run 'TestFinding1' ./pkg/intermediate
//
// Clause violated: "... inter-node flows denied at egress or rejected at ingress, are ready at
// once; ..." (and, as a consequence, the flow is dropped after the retries although a record that
// needs no correlation was received for it).
//
// Input: an inter-node connection that the destination node REJECTS at ingress.  The source node
// has already seen the connection (it forwarded the SYN), so it exports its ordinary record first
// (flowType=InterNode, no rule action, sourcePodName set): this record needs correlation and is
// withheld.  Then the destination node exports its deny record for the same 5-tuple
// (flowType=InterNode, ingressNetworkPolicyRuleAction=Reject, destinationPodName set).  That
// record "is rejected at ingress", so according to the statement the flow is ready at once.
//
// Observed on the clean tree: addOrUpdateRecordInMap computes correlationRequired from the
// INCOMING record only.  For the deny record it is false, so the branch that could set
// ReadyToSend is skipped (aggregate.go:372-378: only aggregateRecords is called).  The flow stays
// "not ready", is never handed to the expiry callback, and after MaxRetries+1 scans it is deleted:
// the reject information is lost.  In the opposite arrival order (deny record first) the same two
// records are exported - the outcome depends on the arrival order, which the quantifier
// ("for all arrival orders ... all flow types and rule actions") excludes.
//
// Why legitimate: both records are accepted by AggregateMsgByFlowKey without error; they are what
// two Antrea-style exporters send for a connection that is rejected by an ingress policy on the
// destination node; the library itself treats the deny record alone as "ready at once".
package intermediate

import (
	"net"
	"testing"
	"time"

	"github.com/vmware/go-ipfix/pkg/entities"
	"github.com/vmware/go-ipfix/pkg/registry"
)

func f1Elem(t *testing.T, name string, ent uint32) *entities.InfoElement {
	ie, err := registry.GetInfoElement(name, ent)
	if err != nil {
		t.Fatalf("registry: %v", err)
	}
	return ie
}

// f1Msg builds a decoded data message holding one inter-node record.
func f1Msg(t *testing.T, srcPod, dstPod string, ingressAction, egressAction uint8) *entities.Message {
	const A = registry.AntreaEnterpriseID
	elements := []entities.InfoElementWithValue{
		entities.NewIPAddressInfoElement(f1Elem(t, "sourceIPv4Address", 0), net.ParseIP("10.1.0.1").To4()),
		entities.NewIPAddressInfoElement(f1Elem(t, "destinationIPv4Address", 0), net.ParseIP("10.2.0.2").To4()),
		entities.NewUnsigned16InfoElement(f1Elem(t, "sourceTransportPort", 0), 40000),
		entities.NewUnsigned16InfoElement(f1Elem(t, "destinationTransportPort", 0), 443),
		entities.NewUnsigned8InfoElement(f1Elem(t, "protocolIdentifier", 0), 6),
		entities.NewStringInfoElement(f1Elem(t, "sourcePodName", A), srcPod),
		entities.NewStringInfoElement(f1Elem(t, "destinationPodName", A), dstPod),
		entities.NewUnsigned8InfoElement(f1Elem(t, "flowType", A), registry.FlowTypeInterNode),
		entities.NewUnsigned8InfoElement(f1Elem(t, "ingressNetworkPolicyRuleAction", A), ingressAction),
		entities.NewUnsigned8InfoElement(f1Elem(t, "egressNetworkPolicyRuleAction", A), egressAction),
	}
	set := entities.NewSet(true)
	if err := set.PrepareSet(entities.Data, 256); err != nil {
		t.Fatal(err)
	}
	if err := set.AddRecord(elements, 256); err != nil {
		t.Fatal(err)
	}
	msg := entities.NewMessage(true)
	msg.SetVersion(10)
	msg.SetObsDomainID(1)
	msg.AddSet(set)
	return msg
}

// f1Run feeds the two messages in the given order and returns: whether the flow was ready right
// after the second message, and how often the expiry callback saw the flow in the scans that follow.
func f1Run(t *testing.T, first, second *entities.Message) (readyAtOnce bool, exported int, left int64) {
	ap, err := InitAggregationProcess(AggregationInput{
		MessageChan:           make(chan *entities.Message),
		WorkerNum:             1,
		CorrelateFields:       []string{"sourcePodName", "destinationPodName", "ingressNetworkPolicyRuleAction", "egressNetworkPolicyRuleAction"},
		ActiveExpiryTimeout:   20 * time.Millisecond,
		InactiveExpiryTimeout: 30 * time.Millisecond,
	})
	if err != nil {
		t.Fatal(err)
	}
	if err := ap.AggregateMsgByFlowKey(first); err != nil {
		t.Fatalf("first record refused: %v", err)
	}
	if err := ap.AggregateMsgByFlowKey(second); err != nil {
		t.Fatalf("second record refused: %v", err)
	}
	if n := ap.GetNumFlows(); n != 1 {
		t.Fatalf("expected one flow, have %d", n)
	}
	_ = ap.ForAllRecordsDo(func(_ FlowKey, r *AggregationFlowRecord) error {
		readyAtOnce = r.ReadyToSend
		return nil
	})
	// let every deadline pass MaxRetries+2 times
	for i := 0; i < MaxRetries+2; i++ {
		time.Sleep(40 * time.Millisecond)
		if err := ap.ForAllExpiredFlowRecordsDo(func(_ FlowKey, r *AggregationFlowRecord) error {
			exported++
			return nil
		}); err != nil {
			t.Fatal(err)
		}
	}
	return readyAtOnce, exported, ap.GetNumFlows()
}

func TestFinding1_RejectRecordAfterWaitingSourceRecord(t *testing.T) {
	defer func(m int) { MaxRetries = m }(MaxRetries)
	MaxRetries = 2

	src := func() *entities.Message {
		return f1Msg(t, "client", "", registry.NetworkPolicyRuleActionNoAction, registry.NetworkPolicyRuleActionNoAction)
	}
	deny := func() *entities.Message {
		return f1Msg(t, "", "server", registry.NetworkPolicyRuleActionReject, registry.NetworkPolicyRuleActionNoAction)
	}

	// control: deny record first, source record second - exported (passes on the clean tree)
	ready, exported, _ := f1Run(t, deny(), src())
	if !ready || exported == 0 {
		t.Fatalf("control order (deny first): ready=%v exported=%d", ready, exported)
	}

	// source record first, deny record second
	ready, exported, left := f1Run(t, src(), deny())
	if !ready {
		t.Errorf("flow rejected at ingress is not ready after its deny record was received (source record arrived first)")
	}
	if exported == 0 {
		t.Errorf("flow rejected at ingress was never handed to the expiry callback; flows left in the map: %d (dropped after the retries)", left)
	}
}
