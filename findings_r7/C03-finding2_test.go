// FINDING 2 (property C03, clean tree): for every element found in the registry the collector
// throws away the field length announced by the template record and decodes data records with
// the registry's default length instead. A template that uses reduced-size encoding (RFC 7011
// section 6.2) - e.g. octetDeltaCount and packetDeltaCount in 4 bytes, which is what most
// routers and softflowd/pmacct export - or a fixed-length string/octetArray (interfaceName as
// 32 bytes, applicationId as 4 bytes, paddingOctets) is accepted without error, and the data
// records that follow are then cut at the wrong places: 8 bytes are taken for a field the
// template in force defines as 4 bytes wide, records straddle record boundaries, and what
// does not fit at the end is dropped as "padding". No error is reported.
//
// Place at:  WT/pkg/collector/finding2_test.go   (package collector, in-package test)
// Run with:  cd WT && go test -count=1 -timeout 120s -run 'TestFinding2_' ./pkg/collector
//
// Clause violated: "the delivered records are exactly those the template in force defines for
// the received set body - every field taken from its full encoded width, in order, with
// nothing left over except padding shorter than the shortest possible record".
// Cause: decodeTemplateSet reads elementLength from the wire and uses it only for unknown
// elements (pkg/collector/process.go:270-286, 309-316); for known ones the registry's
// *InfoElement (with the registry's Len) is stored as the template field.
//
// Why the input is legitimate: the template record is well-formed RFC 7011, names only IANA
// elements of the shipped registry, and is accepted by the library in every decoding mode;
// the data set is exactly 5 records of the 12 bytes the template defines. Refusing the
// template ("reduced-size encoding is not supported") would be in line with the statement;
// delivering three records made of bytes of five is not.
package collector

import (
	"bytes"
	"encoding/binary"
	"net"
	"testing"
	"time"

	"github.com/vmware/go-ipfix/pkg/entities"
	"github.com/vmware/go-ipfix/pkg/registry"
)

func f2Message(setID uint16, body []byte) []byte {
	m := make([]byte, 20, 20+len(body))
	binary.BigEndian.PutUint16(m[0:], 10)
	binary.BigEndian.PutUint16(m[2:], uint16(20+len(body)))
	binary.BigEndian.PutUint32(m[4:], 1700000000)
	binary.BigEndian.PutUint32(m[8:], 0)
	binary.BigEndian.PutUint32(m[12:], 7)
	binary.BigEndian.PutUint16(m[16:], setID)
	binary.BigEndian.PutUint16(m[18:], uint16(4+len(body)))
	return append(m, body...)
}

func f2Decode(t *testing.T, cp *CollectingProcess, packet []byte) (*entities.Message, error) {
	t.Helper()
	type result struct {
		msg *entities.Message
		err error
	}
	done := make(chan result, 1)
	go func() {
		m, err := cp.decodePacket(bytes.NewBuffer(packet), "192.0.2.1:4739")
		done <- result{m, err}
	}()
	select {
	case <-cp.GetMsgChan():
		r := <-done
		return r.msg, r.err
	case r := <-done:
		return r.msg, r.err
	case <-time.After(20 * time.Second):
		t.Fatalf("decoding does not terminate")
		return nil, nil
	}
}

func TestFinding2_TemplateFieldLengthIgnoredForRegisteredElements(t *testing.T) {
	registry.LoadRegistry()
	for _, mode := range []DecodingMode{DecodingModeStrict, DecodingModeLenientKeepUnknown, DecodingModeLenientDropUnknown} {
		t.Run(string(mode), func(t *testing.T) {
			cp, err := InitCollectingProcess(CollectorInput{Address: "127.0.0.1:0", Protocol: "tcp", MaxBufferSize: 65535, DecodingMode: mode})
			if err != nil {
				t.Fatal(err)
			}
			// Template 300: sourceIPv4Address(8)/4, octetDeltaCount(1)/4, packetDeltaCount(2)/4.
			tmpl := []byte{
				0x01, 0x2c, 0x00, 0x03,
				0x00, 0x08, 0x00, 0x04,
				0x00, 0x01, 0x00, 0x04,
				0x00, 0x02, 0x00, 0x04,
			}
			if _, err := f2Decode(t, cp, f2Message(2, tmpl)); err != nil {
				t.Logf("template refused (in line with the property): %v", err)
				return
			}

			type flow struct {
				ip             net.IP
				octets, packet uint32
			}
			var sent []flow
			var body []byte
			for i := 0; i < 5; i++ {
				f := flow{net.IPv4(10, 0, 0, byte(i+1)).To4(), uint32(1000 * (i + 1)), uint32(10 * (i + 1))}
				sent = append(sent, f)
				rec := make([]byte, 12)
				copy(rec, f.ip)
				binary.BigEndian.PutUint32(rec[4:], f.octets)
				binary.BigEndian.PutUint32(rec[8:], f.packet)
				body = append(body, rec...)
			}
			msg, err := f2Decode(t, cp, f2Message(300, body))
			if err != nil {
				t.Logf("data set refused (in line with the property): %v", err)
				return
			}
			records := msg.GetSet().GetRecords()
			if len(records) != len(sent) {
				t.Errorf("template defines 12-byte records and the set body is 60 bytes: 5 records expected, %d delivered", len(records))
			}
			for i, rec := range records {
				elems := rec.GetOrderedElementList()
				if len(elems) != 3 {
					t.Fatalf("record %d: %d fields", i, len(elems))
				}
				ip, oct, pkt := elems[0].GetIPAddressValue(), elems[1].GetUnsigned64Value(), elems[2].GetUnsigned64Value()
				t.Logf("  delivered record %d: sourceIPv4Address=%v octetDeltaCount=%d packetDeltaCount=%d", i, ip, oct, pkt)
				if i < len(sent) && (!ip.Equal(sent[i].ip) || oct != uint64(sent[i].octets) || pkt != uint64(sent[i].packet)) {
					t.Errorf("record %d differs from what was sent (%v, %d, %d): fields were cut at the registry's widths (4,8,8), not at the widths of the template in force (4,4,4)", i, sent[i].ip, sent[i].octets, sent[i].packet)
				}
			}
		})
	}
}
