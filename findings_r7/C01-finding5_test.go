// Finding 5 for property C01 (CLEAN tree): over UDP, after an application re-defines a
// template ID with a new layout (SendSet of the new template record succeeds, the collector
// delivers and adopts it, data in the new layout round-trips correctly), the exporting
// process's periodic template refresh re-sends the FIRST definition of that ID
// (ExportingProcess.updateTemplate ignores IDs it already knows). From that tick on the
// collector slices the application's data records with the old layout and delivers wrong
// field names and wrong values, with no error anywhere.
//
// Place:  cp OUT/finding5_test.go WT/pkg/exporter/finding5_test.go
// Run:    cd WT && go test -count=1 -timeout 120s -run 'TestFinding5RedefinedTemplateRefresh' ./pkg/exporter
//
// Clause violated: "same template fields (element id, ..., name) in the same order ... and
// every field value bit-identical". The last template record the application handed over for
// ID 256 is [octetDeltaCount, sourceTransportPort]; after the refresh the collector holds
// (and delivers in the refresh message) [sourceTransportPort, octetDeltaCount], and the data
// record {octetDeltaCount=0x1122334455667788, sourceTransportPort=443} is delivered as
// {sourceTransportPort=0x1122, octetDeltaCount=0x33445566778801bb}.
//
// Why the input is legitimate: every step is accepted without error by the exporting
// process; the library's own collecting process implements template replacement (the new
// definition is adopted at once); the exporter offers no template withdrawal or deletion
// (deleteTemplate is private and unused), so sending the new definition is the only way to
// change what an ID means, e.g. after a configuration change that adds or reorders exported
// fields. The data records are sent AFTER the new definition and match it (same field
// count, so the exporter's own sanity check passes too). It takes one refresh tick
// (TempRefTimeout, 600 s by default, 1 s here) for the damage to appear, so it does not show
// in short sessions.
package exporter_test

import (
	"testing"
	"time"

	"github.com/vmware/go-ipfix/pkg/collector"
	"github.com/vmware/go-ipfix/pkg/entities"
	"github.com/vmware/go-ipfix/pkg/exporter"
	"github.com/vmware/go-ipfix/pkg/registry"
)

func TestFinding5RedefinedTemplateRefresh(t *testing.T) {
	registry.LoadRegistry()
	cp, err := collector.InitCollectingProcess(collector.CollectorInput{Address: "127.0.0.1:0", Protocol: "udp", MaxBufferSize: 65535})
	if err != nil {
		t.Fatal(err)
	}
	go cp.Start()
	defer cp.Stop()
	for i := 0; i < 500 && cp.GetAddress() == nil; i++ {
		time.Sleep(10 * time.Millisecond)
	}
	if cp.GetAddress() == nil {
		t.Fatal("collector did not start")
	}
	ep, err := exporter.InitExportingProcess(exporter.ExporterInput{
		CollectorAddress:    cp.GetAddress().String(),
		CollectorProtocol:   "udp",
		ObservationDomainID: 7,
		TempRefTimeout:      1, // seconds
	})
	if err != nil {
		t.Fatal(err)
	}
	defer ep.CloseConnToCollector()

	const templateID = 256
	portIE, err := registry.GetInfoElement("sourceTransportPort", registry.IANAEnterpriseID)
	if err != nil {
		t.Fatal(err)
	}
	octetsIE, err := registry.GetInfoElement("octetDeltaCount", registry.IANAEnterpriseID)
	if err != nil {
		t.Fatal(err)
	}
	recvMsg := func(what string) *entities.Message {
		select {
		case m := <-cp.GetMsgChan():
			return m
		case <-time.After(4 * time.Second):
			t.Fatalf("%s: nothing delivered", what)
			return nil
		}
	}
	sendTemplate := func(ies ...*entities.InfoElement) {
		set := entities.NewSet(false)
		if err := set.PrepareSet(entities.Template, templateID); err != nil {
			t.Fatal(err)
		}
		var elements []entities.InfoElementWithValue
		for _, ie := range ies {
			e, err := entities.DecodeAndCreateInfoElementWithValue(ie, nil)
			if err != nil {
				t.Fatal(err)
			}
			elements = append(elements, e)
		}
		if err := set.AddRecord(elements, templateID); err != nil {
			t.Fatal(err)
		}
		if _, err := ep.SendSet(set); err != nil {
			t.Fatalf("SendSet(template): %v", err)
		}
	}
	const octetsValue, portValue = uint64(0x1122334455667788), uint16(443)
	// sendNewLayoutData sends one record in the NEW layout and checks what is delivered.
	sendNewLayoutData := func(when string) {
		set := entities.NewSet(false)
		if err := set.PrepareSet(entities.Data, templateID); err != nil {
			t.Fatal(err)
		}
		elements := []entities.InfoElementWithValue{
			entities.NewUnsigned64InfoElement(octetsIE, octetsValue),
			entities.NewUnsigned16InfoElement(portIE, portValue),
		}
		if err := set.AddRecord(elements, templateID); err != nil {
			t.Fatal(err)
		}
		if _, err := ep.SendSet(set); err != nil {
			t.Fatalf("%s: SendSet(data): %v", when, err)
		}
		var m *entities.Message
		for { // skip refresh messages
			m = recvMsg(when)
			if m.GetSet().GetSetType() == entities.Data {
				break
			}
		}
		recs := m.GetSet().GetRecords()
		if len(recs) != 1 {
			t.Errorf("%s: %d records delivered, 1 given", when, len(recs))
			return
		}
		fields := recs[0].GetOrderedElementList()
		if len(fields) != 2 || fields[0].GetName() != "octetDeltaCount" || fields[1].GetName() != "sourceTransportPort" {
			var names []string
			var values []uint64
			for _, f := range fields {
				names = append(names, f.GetName())
				if f.GetDataType() == entities.Unsigned64 {
					values = append(values, f.GetUnsigned64Value())
				} else if f.GetDataType() == entities.Unsigned16 {
					values = append(values, uint64(f.GetUnsigned16Value()))
				}
			}
			t.Errorf("%s: record {octetDeltaCount=%#x, sourceTransportPort=%#x} given; delivered fields %v with values %#x", when, octetsValue, portValue, names, values)
			return
		}
		if fields[0].GetUnsigned64Value() != octetsValue || fields[1].GetUnsigned16Value() != portValue {
			t.Errorf("%s: wrong values delivered: %#x, %#x", when, fields[0].GetUnsigned64Value(), fields[1].GetUnsigned16Value())
		}
	}

	// 1. First definition of template 256.
	sendTemplate(portIE, octetsIE)
	recvMsg("first template")
	// 2. The application changes the layout of template 256.
	sendTemplate(octetsIE, portIE)
	m := recvMsg("second template")
	if f := m.GetSet().GetRecords()[0].GetOrderedElementList(); f[0].GetName() != "octetDeltaCount" {
		t.Fatalf("the re-definition was not delivered as given: first field %q", f[0].GetName())
	}
	// 3. Data in the new layout is fine ...
	sendNewLayoutData("before the refresh tick")
	if t.Failed() {
		return
	}
	// 4. ... until the exporting process refreshes its templates (1 s).
	for {
		m = recvMsg("template refresh")
		if m.GetSet().GetSetType() == entities.Template {
			break
		}
	}
	if f := m.GetSet().GetRecords()[0].GetOrderedElementList(); len(f) != 2 || f[0].GetName() != "octetDeltaCount" || f[1].GetName() != "sourceTransportPort" {
		t.Errorf("template refresh delivered [%s, %s]; the application's template 256 is [octetDeltaCount, sourceTransportPort]", f[0].GetName(), f[1].GetName())
	}
	// 5. The same record as in step 3.
	sendNewLayoutData("after the refresh tick")
}
