// Finding 6 for property C09 - fails on the CLEAN tree.
//
// Place:  copy to WT/pkg/exporter/finding6_test.go
// Run:    cd WT && go test -count=1 -timeout 120s -run 'TestFinding6C09' ./pkg/exporter
//
// Clause violated: "never transmits a message longer than 65535 bytes; in those cases it returns an error and writes
// nothing to the connection, and later sends still produce well-formed messages" - the next message's
// header carries a sequence number that counts the 7 records of the refused set, which were never sent
// (RFC 7011 3.1: the sequence number counts the data records SENT on the session), so the collector
// sees a loss of 7 records that did not happen. (Weaker than findings 1-5: the message is syntactically
// valid; whether the header's sequence number belongs to "well-formed" is a matter of reading.)
//
// Why the input is legitimate: an oversized set is one of the cases the property quantifies over; createAndSendIPFIXMsg adds the
// set's record count to the sequence counter BEFORE CreateIPFIXMsg checks the size, and does not take it
// back when the message is refused (the same happens when the write fails).
package exporter_test

import (
	"encoding/binary"
	"net"
	"sync"
	"testing"
	"time"

	"github.com/vmware/go-ipfix/pkg/entities"
	"github.com/vmware/go-ipfix/pkg/exporter"
)

type f6Peer struct {
	mu  sync.Mutex
	buf []byte
}

func f6Start(t *testing.T) (*f6Peer, *exporter.ExportingProcess) {
	t.Helper()
	l, err := net.Listen("tcp", "127.0.0.1:0")
	if err != nil {
		t.Fatal(err)
	}
	t.Cleanup(func() { l.Close() })
	p := &f6Peer{}
	go func() {
		c, err := l.Accept()
		if err != nil {
			return
		}
		defer c.Close()
		b := make([]byte, 70000)
		for {
			n, err := c.Read(b)
			p.mu.Lock()
			p.buf = append(p.buf, b[:n]...)
			p.mu.Unlock()
			if err != nil {
				return
			}
		}
	}()
	ep, err := exporter.InitExportingProcess(exporter.ExporterInput{
		CollectorAddress:    l.Addr().String(),
		CollectorProtocol:   "tcp",
		ObservationDomainID: 1,
	})
	if err != nil {
		t.Fatal(err)
	}
	t.Cleanup(ep.CloseConnToCollector)
	return p, ep
}

// take returns (and forgets) everything that reached the peer socket so far; it waits long
// enough for loopback delivery of what has already been written.
func (p *f6Peer) take() []byte {
	time.Sleep(300 * time.Millisecond)
	p.mu.Lock()
	defer p.mu.Unlock()
	b := p.buf
	p.buf = nil
	return b
}

func f6Template(t *testing.T, ep *exporter.ExportingProcess, id uint16, ies ...*entities.InfoElement) {
	t.Helper()
	s, err := entities.MakeTemplateSet(id, ies)
	if err != nil {
		t.Fatal(err)
	}
	if _, err := ep.SendSet(s); err != nil {
		t.Fatalf("template set refused: %v", err)
	}
}

func f6DataSet(t *testing.T, id uint16, records ...[]entities.InfoElementWithValue) entities.Set {
	t.Helper()
	s := entities.NewSet(false)
	if err := s.PrepareSet(entities.Data, id); err != nil {
		t.Fatal(err)
	}
	for _, r := range records {
		if err := s.AddRecord(r, id); err != nil {
			t.Fatalf("AddRecord refused: %v", err)
		}
	}
	return s
}

func TestFinding6C09SequenceNumberAfterRefusedOversizeSet(t *testing.T) {
	peer, ep := f6Start(t)
	nameIE := entities.NewInfoElement("interfaceDescription", 83, entities.String, 0, entities.VariableLength)
	f6Template(t, ep, 256, nameIE)
	peer.take()

	mk := func(records, strLen int) entities.Set {
		recs := make([][]entities.InfoElementWithValue, records)
		for i := range recs {
			recs[i] = []entities.InfoElementWithValue{entities.NewStringInfoElement(nameIE, string(make([]byte, strLen)))}
		}
		return f6DataSet(t, 256, recs...)
	}
	if _, err := ep.SendSet(mk(1, 3)); err != nil {
		t.Fatal(err)
	}
	first := peer.take()
	seq1 := binary.BigEndian.Uint32(first[8:12])

	// 7 records of 10003 bytes: 70041 bytes, refused.
	n, err := ep.SendSet(mk(7, 10000))
	if err == nil || n != 0 || len(peer.take()) != 0 {
		t.Fatalf("oversized set was not refused cleanly: (%d, %v)", n, err)
	}

	if _, err := ep.SendSet(mk(1, 3)); err != nil {
		t.Fatal(err)
	}
	second := peer.take()
	seq2 := binary.BigEndian.Uint32(second[8:12])
	if seq2-seq1 != 1 {
		t.Fatalf("one record was sent between the two messages but the sequence number went from %d to %d (the 7 records of the refused set were counted)", seq1, seq2)
	}
}
