// Finding 3 for property C20 (part B, round 7) - fails on the CLEAN tree.
//
// Place:   copy to WT/cmd/collector/finding3_test.go   (package main, in-package test)
// Run:     cd WT && go test -count=1 -timeout 120s -run 'TestFinding3' ./cmd/collector
//
// Clause violated: "Every field of every record of a message appears, by element name and value,
// in that message's rendered entry."
//
// Input: two independent exporters A and B connect over tcp to the standalone collector. Both use
// observation domain 0 and template id 256 - the defaults of practically every exporter - with
// different layouts:
//     A: template 256 = {octetDeltaCount (unsigned64)}
//     B: template 256 = {sourceIPv4Address, destinationIPv4Address}
// Order of arrival: A's template, B's template, A's data record {octetDeltaCount = 42},
// B's data record {10.0.0.1 -> 10.0.0.2}. Every message is accepted and stored.
//
// Observed: the collecting process keeps ONE template table for all connections, keyed by
// (observation domain, template id) only (pkg/collector/process.go templatesMap), so B's template
// replaces A's. A's record is rendered as "sourceIPv4Address: 0.0.0.0 / destinationIPv4Address:
// 0.0.0.42": neither the element name nor the value of the field that A sent. (Had B's layout a
// different record length, A's message would be cut into the wrong number of records or refused
// and A's connection closed.) The same happens after A disconnects: its templates stay behind
// and decode the data of whoever connects next.
//
// Why legitimate: RFC 7011 section 8: "Template IDs are unique per Transport Session and per
// Observation Domain", a Collecting Process MUST keep them apart and MUST discard them when the
// session ends. Two exporters (two nodes of one cluster) reporting to one collector is the
// ordinary deployment of this binary; every step is accepted by it.
package main

import (
	"encoding/binary"
	"encoding/json"
	"net"
	"net/http"
	"net/http/httptest"
	"strings"
	"testing"
	"time"

	"github.com/vmware/go-ipfix/pkg/collector"
	"github.com/vmware/go-ipfix/pkg/registry"
)

func f3StoreLen() int {
	mutex.Lock()
	defer mutex.Unlock()
	return len(flowRecords)
}

func f3Message(setID uint16, body []byte) []byte {
	b := make([]byte, 16)
	binary.BigEndian.PutUint16(b[0:], 10)
	binary.BigEndian.PutUint16(b[2:], uint16(16+4+len(body)))
	binary.BigEndian.PutUint32(b[4:], 1700000000)
	binary.BigEndian.PutUint32(b[8:], 0)
	binary.BigEndian.PutUint32(b[12:], 0) // observation domain 0
	b = binary.BigEndian.AppendUint16(b, setID)
	b = binary.BigEndian.AppendUint16(b, uint16(4+len(body)))
	return append(b, body...)
}

func f3U16(vs ...uint16) []byte {
	var b []byte
	for _, v := range vs {
		b = binary.BigEndian.AppendUint16(b, v)
	}
	return b
}

func f3SendAndWait(t *testing.T, conn net.Conn, msg []byte, what string) {
	want := f3StoreLen() + 1
	if _, err := conn.Write(msg); err != nil {
		t.Fatalf("%s: write: %v", what, err)
	}
	deadline := time.Now().Add(5 * time.Second)
	for f3StoreLen() < want {
		if time.Now().After(deadline) {
			t.Fatalf("%s: the message was not stored", what)
		}
		time.Sleep(2 * time.Millisecond)
	}
}

func TestFinding3TwoExportersSameTemplateID(t *testing.T) {
	registry.LoadRegistry()
	mutex.Lock()
	flowRecords = nil
	mutex.Unlock()
	// pipeline of run()
	cp, err := collector.InitCollectingProcess(collector.CollectorInput{
		Address:       "127.0.0.1:0",
		Protocol:      "tcp",
		MaxBufferSize: 65535,
		TemplateTTL:   0,
	})
	if err != nil {
		t.Fatal(err)
	}
	go func() {
		go cp.Start()
		for message := range cp.GetMsgChan() {
			addIPFIXMessage(message)
		}
	}()
	deadline := time.Now().Add(10 * time.Second)
	for cp.GetAddress() == nil {
		if time.Now().After(deadline) {
			t.Fatal("collector did not start")
		}
		time.Sleep(5 * time.Millisecond)
	}
	connA, err := net.Dial("tcp", cp.GetAddress().String())
	if err != nil {
		t.Fatal(err)
	}
	connB, err := net.Dial("tcp", cp.GetAddress().String())
	if err != nil {
		t.Fatal(err)
	}
	defer func() {
		connA.Close()
		connB.Close()
		cp.Stop()
		mutex.Lock()
		flowRecords = nil
		mutex.Unlock()
	}()

	f3SendAndWait(t, connA, f3Message(2, f3U16(256, 1, 1, 8)), "A's template")
	f3SendAndWait(t, connB, f3Message(2, f3U16(256, 2, 8, 4, 12, 4)), "B's template")
	f3SendAndWait(t, connA, f3Message(256, binary.BigEndian.AppendUint64(nil, 42)), "A's data")
	f3SendAndWait(t, connB, f3Message(256, []byte{10, 0, 0, 1, 10, 0, 0, 2}), "B's data")

	rr := httptest.NewRecorder()
	flowRecordHandler(rr, httptest.NewRequest(http.MethodGet, "/records?format=json", nil))
	var resp jsonResponse
	if err := json.Unmarshal(rr.Body.Bytes(), &resp); err != nil {
		t.Fatal(err)
	}
	if len(resp.FlowRecords) != 4 {
		t.Fatalf("%d entries, want 4", len(resp.FlowRecords))
	}
	if e := resp.FlowRecords[2]; !strings.Contains(e, "octetDeltaCount: 42 ") {
		t.Errorf("exporter A sent one record {octetDeltaCount: 42} under its own template 256; its entry shows:\n%s", e)
	}
	if e := resp.FlowRecords[3]; !strings.Contains(e, "sourceIPv4Address: 10.0.0.1 ") || !strings.Contains(e, "destinationIPv4Address: 10.0.0.2 ") {
		t.Errorf("exporter B's record is not rendered as sent:\n%s", e)
	}
}
