// FINDING 1 (property C18, clean tree): a DTLS collector that is configured with a client
// CA delivers messages from an exporter that presents NO certificate at all.
//
// Place:   copy to WT/pkg/collector/finding1_test.go
// Run:     cd WT && go test -count=1 -timeout 120s -run 'TestFinding1' ./pkg/collector
// Result:  FAILS on the clean tree (sub-test "dtls"); sub-test "tls" passes and shows what
//          the same configuration does over TLS.
//
// Clause violated: "a collector configured with a client CA delivers messages only from
// exporters presenting a certificate issued by that CA" (the quantifier spans
// {collector client-CA set / unset} x {tls, dtls}).
//
// Why the input is legitimate: CollectorInput{Protocol: "udp", IsEncrypted: true, CACert: ...}
// is accepted by InitCollectingProcess without an error or a warning, the field CACert is
// documented as "for storing encryption info when using TLS/DTLS", and an operator who moves
// a mutually authenticated TLS collector to DTLS keeps the same three PEM inputs.  The
// exporter is the library's own (InitExportingProcess, udp + TLSClientConfig without a key
// pair).  startUDPServer never looks at cp.caCert: it builds a pool from the SERVER
// certificate, stores it in dtls.Config.ClientCAs and leaves ClientAuth at NoClientCert.
package collector

import (
	"crypto/ecdsa"
	"crypto/elliptic"
	"crypto/rand"
	"crypto/x509"
	"crypto/x509/pkix"
	"encoding/pem"
	"math/big"
	"net"
	"testing"
	"time"

	"github.com/vmware/go-ipfix/pkg/entities"
	"github.com/vmware/go-ipfix/pkg/exporter"
	"github.com/vmware/go-ipfix/pkg/registry"
)

type f1CA struct {
	cert *x509.Certificate
	key  *ecdsa.PrivateKey
	pem  []byte
}

func f1NewCA(t *testing.T, cn string) *f1CA {
	key, err := ecdsa.GenerateKey(elliptic.P256(), rand.Reader)
	if err != nil {
		t.Fatal(err)
	}
	tmpl := &x509.Certificate{
		SerialNumber:          big.NewInt(time.Now().UnixNano()),
		Subject:               pkix.Name{CommonName: cn},
		NotBefore:             time.Now().Add(-time.Hour),
		NotAfter:              time.Now().Add(24 * time.Hour),
		IsCA:                  true,
		BasicConstraintsValid: true,
		KeyUsage:              x509.KeyUsageCertSign | x509.KeyUsageDigitalSignature,
	}
	der, err := x509.CreateCertificate(rand.Reader, tmpl, tmpl, &key.PublicKey, key)
	if err != nil {
		t.Fatal(err)
	}
	cert, _ := x509.ParseCertificate(der)
	return &f1CA{cert: cert, key: key, pem: pem.EncodeToMemory(&pem.Block{Type: "CERTIFICATE", Bytes: der})}
}

func (ca *f1CA) issueServer(t *testing.T) (certPEM, keyPEM []byte) {
	key, err := ecdsa.GenerateKey(elliptic.P256(), rand.Reader)
	if err != nil {
		t.Fatal(err)
	}
	tmpl := &x509.Certificate{
		SerialNumber: big.NewInt(time.Now().UnixNano() + 1),
		Subject:      pkix.Name{CommonName: "collector"},
		NotBefore:    time.Now().Add(-time.Hour),
		NotAfter:     time.Now().Add(24 * time.Hour),
		KeyUsage:     x509.KeyUsageDigitalSignature,
		ExtKeyUsage:  []x509.ExtKeyUsage{x509.ExtKeyUsageServerAuth},
		IPAddresses:  []net.IP{net.ParseIP("127.0.0.1")},
		DNSNames:     []string{"localhost"},
	}
	der, err := x509.CreateCertificate(rand.Reader, tmpl, ca.cert, &key.PublicKey, ca.key)
	if err != nil {
		t.Fatal(err)
	}
	keyDER, err := x509.MarshalECPrivateKey(key)
	if err != nil {
		t.Fatal(err)
	}
	return pem.EncodeToMemory(&pem.Block{Type: "CERTIFICATE", Bytes: der}),
		pem.EncodeToMemory(&pem.Block{Type: "EC PRIVATE KEY", Bytes: keyDER})
}

func f1TemplateSet(t *testing.T, id uint16) entities.Set {
	ie, err := registry.GetInfoElement("sourceIPv4Address", registry.IANAEnterpriseID)
	if err != nil {
		t.Fatal(err)
	}
	set, err := entities.MakeTemplateSet(id, []*entities.InfoElement{ie})
	if err != nil {
		t.Fatal(err)
	}
	return set
}

func TestFinding1_DTLSCollectorIgnoresClientCA(t *testing.T) {
	registry.LoadRegistry()
	serverCA := f1NewCA(t, "server CA")
	clientCA := f1NewCA(t, "client CA") // no certificate is ever issued by this CA
	serverCert, serverKey := serverCA.issueServer(t)

	for _, tc := range []struct{ name, protocol string }{{"tls", "tcp"}, {"dtls", "udp"}} {
		t.Run(tc.name, func(t *testing.T) {
			cp, err := InitCollectingProcess(CollectorInput{
				Address:       "127.0.0.1:0",
				Protocol:      tc.protocol,
				MaxBufferSize: 1024,
				IsEncrypted:   true,
				ServerCert:    serverCert,
				ServerKey:     serverKey,
				CACert:        clientCA.pem, // the collector is configured with a client CA
			})
			if err != nil {
				t.Fatal(err)
			}
			go cp.Start()
			defer cp.Stop()
			deadline := time.Now().Add(5 * time.Second)
			for cp.GetAddress() == nil {
				if time.Now().After(deadline) {
					t.Fatal("collector did not start")
				}
				time.Sleep(10 * time.Millisecond)
			}
			delivered := make(chan *entities.Message, 16)
			go func() {
				for {
					select {
					case m := <-cp.GetMsgChan():
						delivered <- m
					case <-time.After(10 * time.Second):
						return
					}
				}
			}()

			// The library's own exporter, WITHOUT a client certificate.
			ep, err := exporter.InitExportingProcess(exporter.ExporterInput{
				CollectorAddress:    cp.GetAddress().String(),
				CollectorProtocol:   tc.protocol,
				ObservationDomainID: 1,
				TLSClientConfig:     &exporter.ExporterTLSClientConfig{CAData: serverCA.pem},
			})
			if err != nil {
				// Refusing the exporter during the handshake is a correct outcome.
				t.Logf("exporter without certificate refused during the handshake: %v", err)
				return
			}
			defer ep.CloseConnToCollector()
			if _, err := ep.SendSet(f1TemplateSet(t, ep.NewTemplateID())); err != nil {
				t.Logf("send failed (fine): %v", err)
			}
			select {
			case m := <-delivered:
				t.Fatalf("collector configured with a client CA delivered a message (obs domain %d, %d record(s)) "+
					"from an exporter that presented no certificate", m.GetObsDomainID(), m.GetSet().GetNumberOfRecords())
			case <-time.After(2 * time.Second):
				// nothing delivered: the property holds
			}
		})
	}
}
