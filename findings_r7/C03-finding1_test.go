// FINDING 1 (property C03, clean tree): a message that carries two data sets is decoded as ONE
// set whose body is "everything up to the end of the message". The 4-byte header of the second
// set is taken for record bytes, so the collector delivers a record that no exporter ever sent.
//
// Place at:  WT/pkg/collector/finding1_test.go   (package collector, in-package test)
// Run with:  cd WT && go test -count=1 -timeout 120s -run 'TestFinding1_' ./pkg/collector
//
// Clause violated: "the delivered records are exactly those the template in force defines for
// the received set body ... with nothing left over except padding shorter than the shortest
// possible record ... no record is conjured from leftover bytes".
// decodePacket reads the set length (setLen) of the first set and never uses it
// (pkg/collector/process.go:213-215, 244); decodeDataSet then loops "while bytes remain" over
// the whole remainder of the message.
//
// Why the input is legitimate: RFC 7011 section 3 defines a message as a header followed by
// one or more sets, and every hardware exporter and most software exporters (softflowd, yaf,
// nProbe, pmacct, OVS) put several sets into one message, commonly two data sets of the same
// or of different templates. Each step below is accepted by the library: the template message
// is accepted, and the data message is accepted without any error.
// An error ("only one set per message is supported"), or the records of the first set only, or
// the records of both sets would all be in line with the statement; a third, invented record is
// not.
package collector

import (
	"bytes"
	"encoding/binary"
	"net"
	"testing"
	"time"

	"github.com/vmware/go-ipfix/pkg/entities"
	"github.com/vmware/go-ipfix/pkg/registry"
)

func f1Header(length int, seq uint32, domain uint32) []byte {
	h := make([]byte, 16)
	binary.BigEndian.PutUint16(h[0:], 10)
	binary.BigEndian.PutUint16(h[2:], uint16(length))
	binary.BigEndian.PutUint32(h[4:], 1700000000)
	binary.BigEndian.PutUint32(h[8:], seq)
	binary.BigEndian.PutUint32(h[12:], domain)
	return h
}

func f1Set(id uint16, body []byte) []byte {
	s := make([]byte, 4, 4+len(body))
	binary.BigEndian.PutUint16(s[0:], id)
	binary.BigEndian.PutUint16(s[2:], uint16(4+len(body)))
	return append(s, body...)
}

// f1Decode feeds one message to the decoder exactly as the transport readers do and plays the
// part of the application reading GetMsgChan().
func f1Decode(t *testing.T, cp *CollectingProcess, packet []byte) (*entities.Message, error) {
	t.Helper()
	type result struct {
		msg *entities.Message
		err error
	}
	done := make(chan result, 1)
	go func() {
		m, err := cp.decodePacket(bytes.NewBuffer(packet), "192.0.2.1:4739")
		done <- result{m, err}
	}()
	select {
	case <-cp.GetMsgChan():
		r := <-done
		return r.msg, r.err
	case r := <-done:
		return r.msg, r.err
	case <-time.After(20 * time.Second):
		t.Fatalf("decoding does not terminate")
		return nil, nil
	}
}

func TestFinding1_SecondSetOfMessageDecodedAsRecords(t *testing.T) {
	registry.LoadRegistry()
	cp, err := InitCollectingProcess(CollectorInput{Address: "127.0.0.1:0", Protocol: "tcp", MaxBufferSize: 65535})
	if err != nil {
		t.Fatal(err)
	}

	// Template 256: one field, sourceIPv4Address (IANA element 8), 4 bytes.
	tmplBody := []byte{0x01, 0x00, 0x00, 0x01, 0x00, 0x08, 0x00, 0x04}
	tmplSet := f1Set(2, tmplBody)
	tmplMsg := append(f1Header(16+len(tmplSet), 0, 1), tmplSet...)
	if _, err := f1Decode(t, cp, tmplMsg); err != nil {
		t.Fatalf("template message refused: %v", err)
	}

	// One message, two data sets for template 256, one record each.
	sent := []net.IP{net.IPv4(10, 0, 0, 1).To4(), net.IPv4(10, 0, 0, 2).To4()}
	set1 := f1Set(256, sent[0])
	set2 := f1Set(256, sent[1])
	body := append(append([]byte{}, set1...), set2...)
	dataMsg := append(f1Header(16+len(body), 0, 1), body...)

	msg, err := f1Decode(t, cp, dataMsg)
	if err != nil {
		t.Logf("message refused (in line with the property): %v", err)
		return
	}
	records := msg.GetSet().GetRecords()
	t.Logf("message with 2 sets x 1 record delivered %d records", len(records))
	for i, rec := range records {
		elems := rec.GetOrderedElementList()
		if len(elems) != 1 {
			t.Fatalf("record %d has %d fields, template defines 1", i, len(elems))
		}
		got := elems[0].GetIPAddressValue()
		t.Logf("  record %d: sourceIPv4Address=%v", i, got)
		known := false
		for _, ip := range sent {
			if got.Equal(ip) {
				known = true
			}
		}
		if !known {
			t.Errorf("record %d (sourceIPv4Address=%v) was never sent: it is built from the 4-byte header of the second set (id 256 = 01 00, length 8 = 00 08)", i, got)
		}
	}
	if len(records) > len(sent) {
		t.Errorf("%d records delivered for a message that carries %d", len(records), len(sent))
	}
}
