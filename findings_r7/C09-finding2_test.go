// Finding 2 for property C09 - fails on the CLEAN tree.
//
// Place:  copy to WT/pkg/exporter/finding2_test.go
// Run:    cd WT && go test -count=1 -timeout 120s -run 'TestFinding2C09' ./pkg/exporter
//
// Clause violated: "A data record it does transmit carries each value faithfully: a value that cannot be encoded for
// its element (... wrong fixed length) yields an error rather than a silently altered field" and, for
// the second test, "it returns an error" (SendSet panics instead).
//
// Why the input is legitimate: reduced-size encoding (RFC 7011 section 6.2) is everyday IPFIX: exporters announce
// octetDeltaCount / packetDeltaCount (unsigned64) with length 4. entities.NewInfoElement and
// registry.PutInfoElement take the length from the caller, MakeTemplateSet + SendSet transmit the template
// with that length, AddRecord accepts the value - nothing refuses it. The encoder then writes the
// value at its natural width: the field keeps only the HIGH bytes (5 -> 0), the low bytes spill into
// the next field, and when the element is the last one of the record the write runs past the buffer
// and SendSet panics (index out of range) inside dataRecSanityCheck.
package exporter_test

import (
	"bytes"
	"net"
	"sync"
	"testing"
	"time"

	"github.com/vmware/go-ipfix/pkg/entities"
	"github.com/vmware/go-ipfix/pkg/exporter"
)

type f2Peer struct {
	mu  sync.Mutex
	buf []byte
}

func f2Start(t *testing.T) (*f2Peer, *exporter.ExportingProcess) {
	t.Helper()
	l, err := net.Listen("tcp", "127.0.0.1:0")
	if err != nil {
		t.Fatal(err)
	}
	t.Cleanup(func() { l.Close() })
	p := &f2Peer{}
	go func() {
		c, err := l.Accept()
		if err != nil {
			return
		}
		defer c.Close()
		b := make([]byte, 70000)
		for {
			n, err := c.Read(b)
			p.mu.Lock()
			p.buf = append(p.buf, b[:n]...)
			p.mu.Unlock()
			if err != nil {
				return
			}
		}
	}()
	ep, err := exporter.InitExportingProcess(exporter.ExporterInput{
		CollectorAddress:    l.Addr().String(),
		CollectorProtocol:   "tcp",
		ObservationDomainID: 1,
	})
	if err != nil {
		t.Fatal(err)
	}
	t.Cleanup(ep.CloseConnToCollector)
	return p, ep
}

// take returns (and forgets) everything that reached the peer socket so far; it waits long
// enough for loopback delivery of what has already been written.
func (p *f2Peer) take() []byte {
	time.Sleep(300 * time.Millisecond)
	p.mu.Lock()
	defer p.mu.Unlock()
	b := p.buf
	p.buf = nil
	return b
}

func f2Template(t *testing.T, ep *exporter.ExportingProcess, id uint16, ies ...*entities.InfoElement) {
	t.Helper()
	s, err := entities.MakeTemplateSet(id, ies)
	if err != nil {
		t.Fatal(err)
	}
	if _, err := ep.SendSet(s); err != nil {
		t.Fatalf("template set refused: %v", err)
	}
}

func f2DataSet(t *testing.T, id uint16, records ...[]entities.InfoElementWithValue) entities.Set {
	t.Helper()
	s := entities.NewSet(false)
	if err := s.PrepareSet(entities.Data, id); err != nil {
		t.Fatal(err)
	}
	for _, r := range records {
		if err := s.AddRecord(r, id); err != nil {
			t.Fatalf("AddRecord refused: %v", err)
		}
	}
	return s
}

func TestFinding2C09ReducedLengthSilentlyAltered(t *testing.T) {
	peer, ep := f2Start(t)
	octets := entities.NewInfoElement("octetDeltaCount", 1, entities.Unsigned64, 0, 4) // reduced-size: 4 bytes
	packets := entities.NewInfoElement("packetDeltaCount", 2, entities.Unsigned64, 0, 8)
	f2Template(t, ep, 256, octets, packets)
	peer.take()

	set := f2DataSet(t, 256, []entities.InfoElementWithValue{
		entities.NewUnsigned64InfoElement(octets, 5),
		entities.NewUnsigned64InfoElement(packets, 7),
	})
	n, err := ep.SendSet(set)
	wire := peer.take()
	if err != nil {
		if len(wire) != 0 {
			t.Fatalf("SendSet returned %v but wrote %d bytes", err, len(wire))
		}
		return // refusing the value is fine
	}
	if len(wire) != 16+4+12 {
		t.Fatalf("SendSet returned (%d, nil) but the peer received %d bytes", n, len(wire))
	}
	rec := wire[20:]
	want := []byte{0, 0, 0, 5, 0, 0, 0, 0, 0, 0, 0, 7}
	if !bytes.Equal(rec, want) {
		t.Fatalf("SendSet reported success but octetDeltaCount=5 (4-byte field) went out altered: record % x, want % x", rec, want)
	}
}

func TestFinding2C09ReducedLengthLastFieldPanics(t *testing.T) {
	peer, ep := f2Start(t)
	proto := entities.NewInfoElement("protocolIdentifier", 4, entities.Unsigned8, 0, 1)
	octets := entities.NewInfoElement("octetDeltaCount", 1, entities.Unsigned64, 0, 4)
	f2Template(t, ep, 256, proto, octets)
	peer.take()

	set := f2DataSet(t, 256, []entities.InfoElementWithValue{
		entities.NewUnsigned8InfoElement(proto, 6),
		entities.NewUnsigned64InfoElement(octets, 5),
	})
	var panicked interface{}
	var n int
	var err error
	func() {
		defer func() { panicked = recover() }()
		n, err = ep.SendSet(set)
	}()
	if panicked != nil {
		t.Fatalf("SendSet panicked instead of returning an error or sending the value: %v", panicked)
	}
	wire := peer.take()
	if err == nil && !bytes.Equal(wire[20:], []byte{6, 0, 0, 0, 5}) {
		t.Fatalf("SendSet returned (%d, nil), record on the wire % x", n, wire[20:])
	}
}
