// FINDING 3 (property C03, clean tree): a data record for a registered fixed-width element whose
// registered length is smaller than the natural width of its data type makes the decoder index
// past the field's bytes: binary.BigEndian.Uint32 on a 2-byte slice (or value[0] on a
// zero-length one) panics. decodePacket runs on the library's own connection goroutines (TCP
// handler, UDP client goroutine), none of which recovers, so ONE such data record terminates
// the whole collecting process.
//
// Place at:  WT/pkg/collector/finding3_test.go   (package collector, in-package test)
// Run with:  cd WT && go test -count=1 -timeout 120s -run 'TestFinding3_' ./pkg/collector
//
// Clause violated: "decoding terminates promptly ... without crashing the process, yielding
// either an error or a message" and "no field is ever built from fewer bytes than its width".
//
// Why the input is legitimate: reduced-size encoding (RFC 7011 section 6.2) lets an exporter
// send an unsigned32 in 2 bytes or a float64 in 4. The registry's per-element Len is the only
// place where an application can tell this library about such an element, and
// registry.PutInfoElement accepts it without complaint (finding 2 shows that the length in the
// template record itself is ignored). The template record below announces the same length
// (2) as the registration, and is accepted; the data set is exactly one record of the 2 bytes
// both the registration and the template define. An error at registration, at the template
// or at the data record would be in line with the statement; a run-time panic is not.
// The same happens for unsigned8/boolean with length 0, unsigned16 with length 1,
// unsigned64/float64/dateTimeMilliseconds with lengths below 8, and so on.
package collector

import (
	"bytes"
	"encoding/binary"
	"testing"
	"time"

	"github.com/vmware/go-ipfix/pkg/entities"
	"github.com/vmware/go-ipfix/pkg/registry"
)

func f3Message(setID uint16, body []byte) []byte {
	m := make([]byte, 20, 20+len(body))
	binary.BigEndian.PutUint16(m[0:], 10)
	binary.BigEndian.PutUint16(m[2:], uint16(20+len(body)))
	binary.BigEndian.PutUint32(m[4:], 1700000000)
	binary.BigEndian.PutUint32(m[12:], 9)
	binary.BigEndian.PutUint16(m[16:], setID)
	binary.BigEndian.PutUint16(m[18:], uint16(4+len(body)))
	return append(m, body...)
}

// f3Decode calls the decoder as the transport goroutines do, but converts a panic into an
// error value so that the test can report it (the transports have no such protection).
func f3Decode(t *testing.T, cp *CollectingProcess, packet []byte) (msg *entities.Message, err error, panicked interface{}) {
	t.Helper()
	type result struct {
		msg *entities.Message
		err error
		p   interface{}
	}
	done := make(chan result, 1)
	go func() {
		var r result
		defer func() {
			r.p = recover()
			done <- r
		}()
		r.msg, r.err = cp.decodePacket(bytes.NewBuffer(packet), "192.0.2.1:4739")
	}()
	select {
	case <-cp.GetMsgChan():
		r := <-done
		return r.msg, r.err, r.p
	case r := <-done:
		return r.msg, r.err, r.p
	case <-time.After(20 * time.Second):
		t.Fatalf("decoding does not terminate")
		return nil, nil, nil
	}
}

func TestFinding3_ReducedSizeRegisteredElementPanicsDecoder(t *testing.T) {
	registry.LoadRegistry()
	const pen = 55555
	if err := registry.InitNewRegistry(pen); err != nil {
		t.Fatal(err)
	}
	// "shortCounter": an unsigned32 that the exporter sends in 2 bytes.
	if err := registry.PutInfoElement(*entities.NewInfoElement("shortCounter", 1, entities.Unsigned32, pen, 2), pen); err != nil {
		t.Logf("registration refused (in line with the property): %v", err)
		return
	}
	cp, err := InitCollectingProcess(CollectorInput{Address: "127.0.0.1:0", Protocol: "tcp", MaxBufferSize: 65535})
	if err != nil {
		t.Fatal(err)
	}
	// Template 256: one enterprise field, element 1 of PEN 55555, length 2.
	tmpl := []byte{0x01, 0x00, 0x00, 0x01, 0x80, 0x01, 0x00, 0x02, 0, 0, 0, 0}
	binary.BigEndian.PutUint32(tmpl[8:], pen)
	_, err, p := f3Decode(t, cp, f3Message(2, tmpl))
	if p != nil {
		t.Fatalf("template message panics the decoder: %v", p)
	}
	if err != nil {
		t.Logf("template refused (in line with the property): %v", err)
		return
	}
	// One record: the 2 bytes the template (and the registration) define.
	msg, err, p := f3Decode(t, cp, f3Message(256, []byte{0x12, 0x34}))
	if p != nil {
		t.Fatalf("a 2-byte data record for the accepted template panics the decoder (the process dies, the transport goroutines do not recover): %v", p)
	}
	if err != nil {
		t.Logf("data record refused (in line with the property): %v", err)
		return
	}
	t.Logf("delivered %d record(s)", msg.GetSet().GetNumberOfRecords())
}
