// FINDING 2 (property C07) - clean tree.
//
// Place:   copy to WT/pkg/intermediate/finding2_test.go
// Run:     cd WT && go test -count=1 -timeout 120s -run 'TestFinding2' ./pkg/intermediate
//
// Clause violated: "the merged record then carries every non-empty correlated field from either
// side and is marked filled".
//
// Input: CorrelateFields names, next to the Pod names, two IANA elements of type unsigned32 that
// each node can only fill for its own side: egressInterface (known at the source node) and
// ingressInterface (known at the destination node).  InitAggregationProcess accepts the list, both
// records are accepted by AggregateMsgByFlowKey, and the flow is correlated.
//
// Observed on the clean tree: correlateRecords only copies values whose data type is string,
// unsigned8, unsigned16, signed32, ipv4Address or ipv6Address (aggregate.go:456-497).  For every
// other type (unsigned32, unsigned64, signed8/16/64, boolean, macAddress, dateTime*, float*,
// octetArray) the non-empty value of the record that arrives second is silently left out (an error
// line is logged, nothing is returned), yet the flow is marked ReadyToSend and
// areCorrelatedFieldsFilled=true and is handed to the expiry callback: a half-filled record is
// exported as filled.  Which of the two values survives depends on the arrival order.  (If the
// first exporter's template lacks the element altogether, the same value IS taken over, whatever
// its type - aggregate.go:448-455 - so the library does not treat the type as unsupported
// consistently.)
//
// Why legitimate: the element names come from the shipped IANA registry, the configuration is
// accepted without error, every call returns nil; a mediator that wants the merged record to name
// the interfaces of both nodes would configure exactly this.
package intermediate

import (
	"net"
	"testing"
	"time"

	"github.com/vmware/go-ipfix/pkg/entities"
	"github.com/vmware/go-ipfix/pkg/registry"
)

func f2Elem(t *testing.T, name string, ent uint32) *entities.InfoElement {
	ie, err := registry.GetInfoElement(name, ent)
	if err != nil {
		t.Fatalf("registry: %v", err)
	}
	return ie
}

func f2Msg(t *testing.T, srcPod, dstPod string, ingressIf, egressIf uint32) *entities.Message {
	const A = registry.AntreaEnterpriseID
	elements := []entities.InfoElementWithValue{
		entities.NewIPAddressInfoElement(f2Elem(t, "sourceIPv4Address", 0), net.ParseIP("10.1.0.1").To4()),
		entities.NewIPAddressInfoElement(f2Elem(t, "destinationIPv4Address", 0), net.ParseIP("10.2.0.2").To4()),
		entities.NewUnsigned16InfoElement(f2Elem(t, "sourceTransportPort", 0), 40000),
		entities.NewUnsigned16InfoElement(f2Elem(t, "destinationTransportPort", 0), 443),
		entities.NewUnsigned8InfoElement(f2Elem(t, "protocolIdentifier", 0), 6),
		entities.NewStringInfoElement(f2Elem(t, "sourcePodName", A), srcPod),
		entities.NewStringInfoElement(f2Elem(t, "destinationPodName", A), dstPod),
		entities.NewUnsigned8InfoElement(f2Elem(t, "flowType", A), registry.FlowTypeInterNode),
		entities.NewUnsigned32InfoElement(f2Elem(t, "ingressInterface", 0), ingressIf),
		entities.NewUnsigned32InfoElement(f2Elem(t, "egressInterface", 0), egressIf),
	}
	set := entities.NewSet(true)
	if err := set.PrepareSet(entities.Data, 256); err != nil {
		t.Fatal(err)
	}
	if err := set.AddRecord(elements, 256); err != nil {
		t.Fatal(err)
	}
	msg := entities.NewMessage(true)
	msg.SetVersion(10)
	msg.SetObsDomainID(1)
	msg.AddSet(set)
	return msg
}

func TestFinding2_CorrelateFieldOfUnsigned32Type(t *testing.T) {
	for _, order := range []string{"source first", "destination first"} {
		ap, err := InitAggregationProcess(AggregationInput{
			MessageChan:           make(chan *entities.Message),
			WorkerNum:             1,
			CorrelateFields:       []string{"sourcePodName", "destinationPodName", "ingressInterface", "egressInterface"},
			ActiveExpiryTimeout:   20 * time.Millisecond,
			InactiveExpiryTimeout: 30 * time.Millisecond,
		})
		if err != nil {
			t.Fatalf("configuration refused: %v", err)
		}
		src := f2Msg(t, "client", "", 0, 7) // source node: knows its egress interface
		dst := f2Msg(t, "", "server", 9, 0) // destination node: knows its ingress interface
		msgs := []*entities.Message{src, dst}
		if order == "destination first" {
			msgs = []*entities.Message{dst, src}
		}
		for _, m := range msgs {
			if err := ap.AggregateMsgByFlowKey(m); err != nil {
				t.Fatalf("%s: record refused: %v", order, err)
			}
		}
		time.Sleep(40 * time.Millisecond)
		exported := 0
		err = ap.ForAllExpiredFlowRecordsDo(func(_ FlowKey, r *AggregationFlowRecord) error {
			exported++
			if !ap.AreCorrelatedFieldsFilled(*r) {
				t.Errorf("%s: exported flow is not marked filled", order)
			}
			m := r.Record.GetElementMap()
			if m["sourcePodName"] != "client" || m["destinationPodName"] != "server" {
				t.Errorf("%s: Pod names not merged: %v / %v", order, m["sourcePodName"], m["destinationPodName"])
			}
			if m["egressInterface"] != uint32(7) {
				t.Errorf("%s: merged record marked filled, but egressInterface=%v; the source node reported 7", order, m["egressInterface"])
			}
			if m["ingressInterface"] != uint32(9) {
				t.Errorf("%s: merged record marked filled, but ingressInterface=%v; the destination node reported 9", order, m["ingressInterface"])
			}
			return nil
		})
		if err != nil {
			t.Fatal(err)
		}
		if exported != 1 {
			t.Errorf("%s: expected the correlated flow to be exported once, got %d", order, exported)
		}
	}
}
