// FINDING 1 (property C05, clean tree): with more than one worker the aggregation process
// applies the records of ONE flow out of order, and then silently drops the older record's
// delta counters and winds the node's end-time reference backwards.
//
// Place:   copy to WT/pkg/intermediate/finding1_test.go
// Run:     cd WT && go test -count=1 -timeout 120s -run 'TestFinding1' ./pkg/intermediate
//
// Clause violated: "the aggregated record always carries ... in each reporting node's fields the
// sum of every delta counter over all records that node sent since the counters were last reset,
// with throughput equal to 8 x the growth of the octet total divided by the growth of the end
// time since that node's previous record".
//
// Why the input is legitimate: only the public API is used. The process is created with
// WorkerNum = 2 (InitAggregationProcess accepts any positive number; Antrea's flow aggregator
// runs it with 2 workers) and is fed through its message channel, the way a collector feeds it.
// The exporter contract holds on the channel: the records of flow X arrive in order, r1 (end 110)
// in message M1, r2 (end 120) in M2, r3 (end 130) in M3; totals do not decrease; end > start.
// M1 is simply a big message (r1 is the last of 3000 records, the others belong to other flows),
// M2 is a small one. All workers read the same channel, so worker B finishes M2 before worker A
// reaches r1 at the end of M1. r1 is then "not the latest from its node" and is discarded
// (its deltas are lost), but not before flowEndSecondsFromSourceNode/-DestinationNode were set
// BACK to 110, so that r3's throughput is computed over 20 s instead of 10 s.
//
// Expected (and obtained with WorkerNum = 1): packetDeltaCount = 5+7+11 = 23, octetDeltaCount =
// 50+70+110 = 230, throughput = 8*(230-120)/(130-120) = 88.
// Observed with WorkerNum = 2: packetDeltaCount = 18, octetDeltaCount = 180, throughput = 44, in
// 10 of 10 trials on a 16-CPU machine (also 10/10 with -cpu 2 and -cpu 4, 9/10 with -cpu 1).
package intermediate_test

import (
	"fmt"
	"net"
	"strings"
	"testing"
	"time"

	"github.com/vmware/go-ipfix/pkg/entities"
	"github.com/vmware/go-ipfix/pkg/intermediate"
	"github.com/vmware/go-ipfix/pkg/registry"
)

func f1Elements() *intermediate.AggregationElements {
	stats := []string{"packetTotalCount", "packetDeltaCount", "octetTotalCount", "octetDeltaCount",
		"reversePacketTotalCount", "reversePacketDeltaCount", "reverseOctetTotalCount", "reverseOctetDeltaCount"}
	var src, dst []string
	for _, s := range stats {
		src = append(src, s+"FromSourceNode")
		dst = append(dst, s+"FromDestinationNode")
	}
	return &intermediate.AggregationElements{
		NonStatsElements:                   []string{"flowEndSeconds"},
		StatsElements:                      stats,
		AggregatedSourceStatsElements:      src,
		AggregatedDestinationStatsElements: dst,
		AntreaFlowEndSecondsElements:       []string{"flowEndSecondsFromSourceNode", "flowEndSecondsFromDestinationNode"},
		ThroughputElements:                 []string{"throughput", "reverseThroughput"},
		SourceThroughputElements:           []string{"throughputFromSourceNode", "reverseThroughputFromSourceNode"},
		DestinationThroughputElements:      []string{"throughputFromDestinationNode", "reverseThroughputFromDestinationNode"},
	}
}

func f1IE(t testing.TB, name string) *entities.InfoElement {
	for _, en := range []uint32{registry.IANAEnterpriseID, registry.IANAReversedEnterpriseID, registry.AntreaEnterpriseID} {
		if ie, err := registry.GetInfoElement(name, en); err == nil {
			return ie
		}
	}
	t.Fatalf("element %s not in the registries", name)
	return nil
}

// f1Record builds one intra-node (no correlation) IPv4 TCP record the way the collector
// delivers it (decoding mode).
func f1Record(t testing.TB, src, dst string, sport, dport uint16, start, end uint32, pktTotal, pktDelta, octTotal, octDelta uint64) []entities.InfoElementWithValue {
	el := []entities.InfoElementWithValue{
		entities.NewIPAddressInfoElement(f1IE(t, "sourceIPv4Address"), net.ParseIP(src).To4()),
		entities.NewIPAddressInfoElement(f1IE(t, "destinationIPv4Address"), net.ParseIP(dst).To4()),
		entities.NewUnsigned16InfoElement(f1IE(t, "sourceTransportPort"), sport),
		entities.NewUnsigned16InfoElement(f1IE(t, "destinationTransportPort"), dport),
		entities.NewUnsigned8InfoElement(f1IE(t, "protocolIdentifier"), 6),
		entities.NewStringInfoElement(f1IE(t, "sourcePodName"), "podA"),
		entities.NewStringInfoElement(f1IE(t, "destinationPodName"), "podB"),
		entities.NewUnsigned8InfoElement(f1IE(t, "flowType"), registry.FlowTypeIntraNode),
		entities.NewDateTimeSecondsInfoElement(f1IE(t, "flowStartSeconds"), start),
		entities.NewDateTimeSecondsInfoElement(f1IE(t, "flowEndSeconds"), end),
	}
	for _, s := range f1Elements().StatsElements {
		var v uint64
		switch {
		case strings.HasSuffix(s, "acketTotalCount"):
			v = pktTotal
		case strings.HasSuffix(s, "acketDeltaCount"):
			v = pktDelta
		case strings.HasSuffix(s, "ctetTotalCount"):
			v = octTotal
		case strings.HasSuffix(s, "ctetDeltaCount"):
			v = octDelta
		}
		el = append(el, entities.NewUnsigned64InfoElement(f1IE(t, s), v))
	}
	return el
}

func f1Message(t testing.TB, records ...[]entities.InfoElementWithValue) *entities.Message {
	set := entities.NewSet(true)
	if err := set.PrepareSet(entities.Data, 256); err != nil {
		t.Fatal(err)
	}
	for _, r := range records {
		if err := set.AddRecord(r, 256); err != nil {
			t.Fatal(err)
		}
	}
	m := entities.NewMessage(true)
	m.SetVersion(10)
	m.SetObsDomainID(1)
	m.SetExportAddress("127.0.0.1")
	m.AddSet(set)
	return m
}

func f1Run(t *testing.T, workers int) (got map[string]interface{}) {
	const fillers = 3000
	ch := make(chan *entities.Message)
	ap, err := intermediate.InitAggregationProcess(intermediate.AggregationInput{
		MessageChan:           ch,
		WorkerNum:             workers,
		AggregateElements:     f1Elements(),
		ActiveExpiryTimeout:   time.Hour,
		InactiveExpiryTimeout: time.Hour,
	})
	if err != nil {
		t.Fatal(err)
	}
	go ap.Start()
	defer ap.Stop()

	// M1: 3000 records of other flows, then r1 of flow X.  M2: r2 of flow X.  M3: r3 of flow X.
	var recs [][]entities.InfoElementWithValue
	for i := 0; i < fillers; i++ {
		recs = append(recs, f1Record(t, fmt.Sprintf("10.1.%d.%d", i/250, i%250+1), "10.2.0.1", 1000, 80, 100, 110, 1, 1, 10, 10))
	}
	recs = append(recs, f1Record(t, "10.0.0.1", "10.0.0.2", 1234, 80, 100, 110, 5, 5, 50, 50))
	m1 := f1Message(t, recs...)
	m2 := f1Message(t, f1Record(t, "10.0.0.1", "10.0.0.2", 1234, 80, 100, 120, 12, 7, 120, 70))
	m3 := f1Message(t, f1Record(t, "10.0.0.1", "10.0.0.2", 1234, 80, 100, 130, 23, 11, 230, 110))
	ch <- m1
	ch <- m2
	// M3 is only sent once M1 and M2 have been taken in completely.
	key := &intermediate.FlowKey{SourceAddress: "10.0.0.1", DestinationAddress: "10.0.0.2", Protocol: 6, SourcePort: 1234, DestinationPort: 80}
	deadline := time.Now().Add(20 * time.Second)
	for time.Now().Before(deadline) {
		if ap.GetNumFlows() == fillers+1 {
			if r := ap.GetRecords(key); len(r) == 1 && r[0]["flowEndSeconds"].(uint32) == 120 {
				break
			}
		}
		time.Sleep(5 * time.Millisecond)
	}
	time.Sleep(100 * time.Millisecond) // both workers idle again
	ch <- m3
	for time.Now().Before(deadline) {
		if r := ap.GetRecords(key); len(r) == 1 && r[0]["flowEndSeconds"].(uint32) == 130 {
			time.Sleep(50 * time.Millisecond)
			return ap.GetRecords(key)[0]
		}
		time.Sleep(5 * time.Millisecond)
	}
	t.Fatal("the three messages were not taken in within 20 s")
	return nil
}

func TestFinding1_WorkersReorderRecordsOfOneFlow(t *testing.T) {
	registry.LoadRegistry()
	want := map[string]interface{}{
		"flowEndSeconds":                     uint32(130),
		"packetTotalCount":                   uint64(23),
		"packetDeltaCount":                   uint64(23),
		"octetDeltaCount":                    uint64(230),
		"packetDeltaCountFromSourceNode":     uint64(23),
		"octetDeltaCountFromDestinationNode": uint64(230),
		"flowEndSecondsFromSourceNode":       uint32(130),
		"throughput":                         uint64(88),
		"throughputFromSourceNode":           uint64(88),
	}
	check := func(got map[string]interface{}) (bad []string) {
		for k, w := range want {
			if got[k] != w {
				bad = append(bad, fmt.Sprintf("%s = %v, want %v", k, got[k], w))
			}
		}
		return bad
	}
	// Reference run: one worker gives the result the property promises.
	if bad := check(f1Run(t, 1)); len(bad) != 0 {
		t.Fatalf("one worker: %v", bad)
	}
	const trials = 10
	failed := 0
	var first []string
	for i := 0; i < trials; i++ {
		if bad := check(f1Run(t, 2)); len(bad) != 0 {
			failed++
			if first == nil {
				first = bad
			}
		}
	}
	if failed > 0 {
		t.Fatalf("two workers: %d of %d trials gave a wrong aggregate for a flow whose records arrived in order; first: %v", failed, trials, first)
	}
}
