#!/usr/bin/env python3
"""Regenerates MANIFEST.json from the table below (keeps it valid at all times)."""
import json, os
ROOT = os.path.dirname(os.path.abspath(__file__))
props = [json.loads(l) for l in open(os.path.join(ROOT, "properties.jsonl"))]

# id -> (technique, level text, level note, design ref)
CLAIMED = {
 "C15": ("property-based testing: exhaustive enumeration of 8/16-bit types and all boundary lengths + rapid boundary/random generation against an independent reference codec (differential + round trip); native go fuzzing in the thorough tier",
         "Every value of the 8/16-bit types and booleans, every string/octet length 0..300 and 65500..65535, fixed octet arrays 1..100 and tens of thousands (quick) to millions (thorough) of boundary-biased random values of all 18 types are encoded by the library and compared byte-for-byte with an independent RFC 7011 codec, decoded back bit-exactly, and pushed through the collector to confirm the decoder consumes exactly the encoded length. Exhaustive where the space is small, sampled elsewhere: absence of a defect for an unsampled 32/64-bit value is not shown.",
         "trusted: harness/refipfix (independent codec), the verif hook VerifDecodePacket (a plain call of decodePacket)", "DESIGN.md section 3 C15"),
}
HOOK_COMMITS = ["bde829d"]

checks = []
for p in props:
    i = p["id"]
    if i in CLAIMED:
        tech, text, note, ref = CLAIMED[i]
        checks.append({
            "property_id": i,
            "quick_cmd": f"./check {i} quick",
            "thorough_cmd": f"./check {i} thorough",
            "evidence_file": f"/verif/evidence/{i}.json",
            "replay_cmd_template": f"./check {i} --replay {{path}}",
            "engine": "harness",
            "level_claimed": {"category": "exploration", "text": text, "design_ref": ref},
            "level_note": note,
            "technique": tech,
        })
na = [{"property_id": p["id"], "reason": "check not built yet in this round (planned: see DESIGN.md section 3); not a claim that the technique cannot apply"}
      for p in props if p["id"] not in CLAIMED]
m = {
 "version": 1,
 "setup_cmd": "./setup.sh",
 "hooks": {
  "guard": "verif",
  "enable": "go build tag: every check builds /repo through harness/go.mod's replace directive with `go test -tags verif`; hook files are pkg/*/verif_hooks.go (//go:build verif)",
  "baseline_off_cmd": "cd /repo && GOFLAGS=-mod=mod GOPROXY=off GOSUMDB=off go test -json -vet=off -count=1 -timeout 25m ./...",
  "source_commits": HOOK_COMMITS,
  "add_only": True,
 },
 "engines": [{"name": "harness", "path": "/verif/harness", "serves_properties": sorted(CLAIMED),
              "kind_free_text": "Go module with pgregory.net/rapid v1.3.0 generators, an independent reference IPFIX codec (refipfix), reference models, and `go test -fuzz` targets; driven by /verif/check"}],
 "checks": checks,
 "not_applicable": na,
 "notes": "exit 0 = held on everything explored (KNOWN-FINDING lines possible), 1 = VIOLATION line with replay, 2 = inconclusive (build failure, budget, infrastructure). Known findings: /verif/known_findings.json.",
}
json.dump(m, open(os.path.join(ROOT, "MANIFEST.json"), "w"), indent=1)
print("claimed:", sorted(CLAIMED), "not_applicable:", len(na))
