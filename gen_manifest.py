#!/usr/bin/env python3
"""Regenerates MANIFEST.json from the table below (keeps it valid at all times)."""
import json, os
ROOT = os.path.dirname(os.path.abspath(__file__))
props = [json.loads(l) for l in open(os.path.join(ROOT, "properties.jsonl"))]

# dimensions added after the seeded-change rounds (appended to the level text)
ADDED = {
 "C01": "Also: a refresh round with two registered templates before the data (udp/dtls), and applications that reuse one list of element objects for all records. The application behind the collector pauses for seconds (6.5 s over udp in quick; 33 s and 12.5 s with large messages in thorough): nothing a successful SendSet handed over may be given up.",
 "C02": "Also: applications that reuse their element objects, MakeDataSet, and a collector that does not read for a while so that sends block while the connection check runs (the stream must still tile into well-formed messages). A string element declared with a fixed length (defect D17), and reused address elements that start from a shared placeholder.",
 "C03": "Also: a fixed-length string element, unknown elements under enterprise numbers above 2^16 that alias registered ones, and the same oracle at log verbosity 5. Templates of thousands of fields (sums of widths around and beyond 2^16, fields of length zero) with data sets of up to 65000 bytes. Messages with a second set behind the first (defect D19), an application-registered element shorter than its type (D21), strings that start with a byte order mark, object identity of the delivered fields. A data set shorter than its own header delivers no record (defect D28); empty and padding-only data sets over udp.",
 "C04": "Also: tcp sessions configured with a template TTL while time passes (templates of a tcp session never expire). Template records followed by more content in the same message (a second record, stray bytes, a second set).",
 "C05": "Also: fields appended to a record by the user (external fields) must survive every reset and export. A process that also merges httpVals, with values that do and do not parse. More than 100000 flows held at once.",
 "C06": "Also: one timeout switched off by the largest duration, a burst of thousands of flows through the same model, and two real-time scenarios with a blocking export callback (structural invariants only). Records that end with or before the last one from their node, and inter-node records that name neither Pod or both. One scan whose callbacks take longer than the timeouts, with every flow due.",
 "C07": "Also: the exported MaxRetries setting as a case dimension (0..3). A source exporter without the destinationPodName element whose peer never reports. Exporters whose templates lack correlate elements of the other end (defect D15) and flows that one node reports denied while the other reports them as ordinary (D18). Log verbosity 0/2/10 as a dimension, scans under a watchdog.",
 "C08": "Also: template id ranges 256.., 1000.., 65533.. and the reserved range below 256. One udp and one tcp session of 70000 (thorough 140000) calls in lock step with the peer. After a udp outage no call may have counted its records twice.",
 "C09": "Also: single-record sets built through MakeDataSet, and a JSON-output-mode phase (refused sets write nothing; accepted records are JSON documents; byte counts add up). Zero-field records for ids never sent, and single records whose fields are each encodable but add up beyond a message. Data sets whose header id names no sent template (defect D16) and elements of a fixed-size type declared with a shorter length (D20). Elements of a data type without encoder (defect D32); log verbosity as a dimension of every case.",
 "C10": "Also: the unconfigured TTL (default 1800 s). Two scenarios off the harness clock: the production clock with 30 ms passing inside the call that arms the timer, and the expiry callback racing a refresh on two goroutines for 40000 (thorough 1.5 M) rounds.",
 "C11": "Also: long-lived real plain and TLS connections whose stream pauses 6 s (thorough up to 65 s) inside a message. Thorough pauses now go to 95 and 125 s. Data sets that end with padding inside the streams. Open finding D23: an undecodable template on one connection naming the template id of another (printed as KNOWN-FINDING, excluded). Faulty clients that come and go beside connections that stream without pause (every faulty connection closed, the others served in order).",
 "C12": "Also: Stop after a Start that could not bring the server up, and hundreds of clients connected at once in waves followed by one ordinary client. The harness's TLS clients dial with a bound: a client that cannot get a session while silent clients hold connections is a failure. A collector in a child process that never loaded the registry, 24 exporters at once. Stop under traffic with a steadily slow consumer: when Stop returns no goroutine is left.",
 "C13": "Also: programs at log verbosity 5, and a burst of thousands of flows ingested and expired by concurrent goroutines (each exported exactly once). Stop while messages arrive (defect D27); pool messages that hold two records of a stream and end with a refused record. Stop right after 'go Start()' (defect D31); nodes whose templates lack correlate elements, under the race detector.",
 "C14": "Also: JSON-mode exporters under refresh activity, the idle-close scenario over TLS, the real refresh ticker over DTLS, and a refresh round that cannot rebuild a registered template (next SendSet and Close must return). Template sets of several records that repeat templates already sent, and udp exporters configured with a connection-check interval. Sequence numbers of retransmitted templates against what is on the wire (defect D22); a peer that writes before it closes (D25). TLS sessions the collector ends without close_notify (defect D29), overlapping Close calls on a connection that closes slowly (defect D30, hook VerifWrapConn), templates registered between ticks of the real ticker.",
 "C15": "Also: every registry element of a supported type once per position, and one unknown element announced with every length 1..64 and variable-length in one lenient collector.",
 "C16": "Also: element lists holding an element whose declared type has no encoder. Records around an element without encoder judged field by field, and add calls that name another template id than the set's. Records of zero width. Fixed histories that grow a set beyond 65535 bytes through all three add paths.",
 "C17": "Also: templates of 60-140 fields and unknown elements under enterprise numbers above 2^16 that alias registered ones. Data sets that end with padding. The reverse registry must not hold the ids RFC 5103 lists as not reversible. MaxBufferSize of stream collectors (1024, 100, 1) as a dimension.",
 "C18": "Beyond the matrix: the collector addressed by host name, security settings with the network names tcp4/tcp6/udp4/udp6 (nothing may travel in clear), and a generated phase of server identities (intermediates presented / withheld / not a CA / expired, SAN lists with wildcards and IP literals, validity windows) judged by a predicate written from the statement. Trusted-then-untrusting exporter pairs with and without client key pairs, and server certificates 20 s from either end of their validity. The harness process allows TLS 1.0/1.1 servers (GODEBUG), so the library's own minimum version is what is tested.",
 "C19": "Also: KafkaLogSuccesses on, a slow broker side, messages with more records than the queues hold, and a watchdog for a producer that stops making progress. One producer publishing from two channels at once. A broker side that stalls for seconds in mid-stream.",
 "C20": "Also: records that repeat an element, and messages whose rendering is far larger than any wire message. Query strings that do not parse (defect D26). Log verbosity 2/4/10 as a dimension.",
}

# id -> (technique, level text, level note, design ref)
CLAIMED = {
 "C15": ("property-based testing: exhaustive enumeration of 8/16-bit types and all boundary lengths + rapid boundary/random generation against an independent reference codec (differential + round trip); native go fuzzing in the thorough tier",
         "Every value of the 8/16-bit types and booleans, every string/octet length 0..300 and 65500..65535, fixed octet arrays 1..100 and tens of thousands (quick) to millions (thorough) of boundary-biased random values of all 18 types are encoded by the library and compared byte-for-byte with an independent RFC 7011 codec, decoded back bit-exactly, and pushed through the collector to confirm the decoder consumes exactly the encoded length. Exhaustive where the space is small, sampled elsewhere: absence of a defect for an unsampled 32/64-bit value is not shown.",
         "trusted: harness/refipfix (independent codec), the verif hook VerifDecodePacket (a plain call of decodePacket)", "DESIGN.md section 3 C15"),
}
CLAIMED.update({
 "C03": ("property-based testing + fuzzing: exhaustive truncation/padding enumeration of valid messages, rapid-generated packet histories (grammar + mutations) against the reference data-set parser (differential oracle) with panic/hang/heap watchdogs; native go fuzzing in the thorough tier",
         "Every truncation point and padding extension of small valid messages, degenerate templates, and tens of thousands (quick) to millions (thorough) of generated packet histories in all three decoding modes are decoded in-process; panics, hangs and runaway allocation are violations, and every returned data message is compared record-for-record with an independent strict parser of the set body under the stored template; template messages are compared with the wire's ids/enterprise numbers. Sampling: a crash needing a byte pattern the generators and the fuzzer never produce is not excluded.",
         "trusted: harness/refipfix; verif hooks VerifDecodePacket/VerifTemplates; 'template in force' is what the collector stores (C04 judges that); hang rule 10 s / 1 GiB per <=64 KiB packet", "DESIGN.md section 3 C03"),
 "C04": ("model-based property testing: exhaustive enumeration of all histories over a 28-symbol alphabet to depth 3/4 plus rapid random histories, against an independent map model of the template table and the reference parser",
         "All histories up to depth 3 (quick) / 4 (thorough) over {template A/B/with-unknown, truncated template, data A/B} x 2 domains x 2 ids x 3 modes x tcp/udp, plus random histories up to 60 steps with random templates: after every step the collector's outcome (accept with exactly the reference records / reject) and its stored template table must equal an independent model. Exhaustive only for the bounded alphabet and depth.",
         "trusted: harness/refipfix, the map model, verif hooks; a template record header cut below 4 bytes counts as 'id not read' (pinned by the repository's own test)", "DESIGN.md section 3 C04"),
 "C17": ("property-based testing: rapid-generated templates mixing known and unknown elements; differential oracle (reference parser) and metamorphic relation (same case with unknown fields deleted) across the three decoding modes",
         "Tens of thousands (quick) to hundreds of thousands (thorough) of generated templates with unknown elements at all positions, fixed and variable lengths, are fed to strict/keep/drop collectors: strict must reject template and data, keep must deliver every unknown field as an octet array with exactly the received bytes, drop must deliver exactly the known fields, and known fields must equal what a collector sees when the unknown fields are absent. Sampled, not exhaustive.",
         "trusted: harness/refipfix, verif hook VerifDecodePacket", "DESIGN.md section 3 C17"),
})
CLAIMED.update({
 "C02": ("property-based testing: rapid-generated SendSet sessions captured on a harness-owned raw socket and decoded by the independent reference codec (differential, byte-exact)",
         "Thousands (quick) to hundreds of thousands (thorough) of generated sessions (templates through all four construction paths, data sets of 1..200 records, elements from IANA / 29305 / 56506 / a user-registered enterprise covering all 18 types, variable-length values incl. every length 250..260) over tcp and udp, IPv4 and IPv6: every message on the wire must parse as RFC 7011 for a decoder sharing no code with the library and equal the reference encoding byte for byte (export time and sequence number excepted). Sampled.",
         "trusted: harness/refipfix; loopback delivers bytes in order", "DESIGN.md section 3 C02"),
 "C08": ("property-based testing: rapid-generated sessions of successful sends with the sequence counter started near 2^32 (verif setter), headers parsed by the reference codec and compared with a running-sum model",
         "Generated sessions of up to 40 successful sends (template and data sets of 1..200 records, three templates, tcp and udp), half of them starting within 300 of the 2^32 wrap: every captured header must carry sequence = start + data records sent so far (mod 2^32), untouched by template messages, the configured observation domain, an export time inside the sending second, and one message of exactly the reported size per call. Sampled.",
         "trusted: harness/refipfix; verif hook VerifSetSeqNumber; wall clock monotone within a case", "DESIGN.md section 3 C08"),
 "C09": ("property-based testing with fault-style inputs: enumerated size window around 65535 and all ill-typed value kinds, plus rapid-generated sessions mixing valid and invalid sends; oracle = byte-level stream equality with the reference encoding of the valid steps",
         "Every message size 65500..65545 (data) and around the limit (template), every kind of unencodable value through every add path, and thousands of generated sessions mixing valid sends with unknown ids, wrong field counts, Undefined sets, oversized sets and ill-typed values, over tcp and udp: invalid steps must fail and leave no byte on the wire (decided by stream content thanks to marker messages), data may only follow its template on the wire, and transmitted records must equal the faithful encoding. Sampled beyond the enumerated windows.",
         "trusted: harness/refipfix; loopback delivers bytes in order; UDP sizes 65508..65535 may fail in the kernel (allowed)", "DESIGN.md section 3 C09"),
 "C16": ("model-based property testing: rapid-generated operation sequences on one Set; invariant after every step (length bookkeeping vs the reference encoding), metamorphic relation (three add paths give identical bytes) and differential against a fresh set",
         "Generated prepare/add/update/reset sequences with arbitrary element lists: after every operation GetSetLength = 4 + sum of record lengths = reference size, every record buffer equals its reported length and the reference bytes, CreateIPFIXMsg equals the reference message, the reused set equals a fresh set given the operations since the last reset, and replaying the history through each add path yields identical bytes. Sampled.",
         "trusted: harness/refipfix", "DESIGN.md section 3 C16"),
})
CLAIMED.update({
 "C05": ("model-based property testing: rapid-generated histories of records, resets and exports over a pool of 5-tuples, compared after every step with a sequential reference model of the aggregation arithmetic written from the statement",
         "Generated histories (up to 60 operations, 4 five-tuples differing in a single port / protocol, IPv4 and IPv6, all five flow kinds, counters up to 2^60 / 2^40) of records, resets and exports: after every operation GetNumFlows and the GetRecords element map of every flow (latest end, totals, per-node and common deltas and throughput, tcpState, five-tuple) must equal the reference model, and exported snapshots must equal it at that instant. Sampled.",
         "trusted: the reference model in harness/aggh (DESIGN.md A.2); verif hook VerifShiftDeadlines; end times distinct within a flow (ties between nodes are not judged)", "DESIGN.md section 3 C05"),
 "C06": ("model-based property testing: exhaustive enumeration of all histories over a 10-symbol alphabet to depth 5/6 plus rapid random histories to depth 80, virtual time by deadline shifting, invariants over the heap/map snapshot after every step",
         "All histories to depth 5 (quick) / 6 (thorough) over {record for 3 keys, advance 1/4/11 h, scan with 4 failing-callback subsets} under two timeout pairs, plus random histories: every scan's callback sequence (exactly the flows whose deadline passed, earliest first, stop at the first failure) and, after every action, the queue/map one-to-one correspondence, back-pointers, heap order, per-flow deadlines and the advertised next expiry are checked against the model. A scan exactly at a deadline instant is not reachable.",
         "trusted: expiry model in harness/aggh (DESIGN.md A.3); verif hooks VerifShiftDeadlines/VerifSnapshot; 20 s grid slack vs ms of real time", "DESIGN.md section 3 C06"),
 "C07": ("model-based property testing: rapid-generated arrival orders of source-node / destination-node records with generated correlate-field values, advances and scans; correlation oracle at every callback plus the retry/drop model",
         "Generated histories over two inter-node flows needing correlation and a control flow of each ready-at-once kind: no callback before both nodes were seen, merged records carry every non-empty correlate field (exactly the supplied value) and are marked filled, ready-at-once kinds fire at their first deadline, uncorrelated flows are re-armed exactly MaxRetries times and then dropped without a callback. Sampled.",
         "trusted: model in harness/aggh; rule actions and correlate values are per-flow per-node constants", "DESIGN.md section 3 C07"),
})
CLAIMED.update({
 "C10": ("model-based property testing with a harness-owned clock: exhaustive enumeration of histories (incl. every placement of 'timer fired', 'callback read the clock', 'callback took the lock') to depth 5/6 plus rapid random histories; invariants over the template table and the clock's timer table after every step",
         "The collector's clock and timers are replaced by a harness clock (Go AfterFunc semantics) in which a fired timer's callback is queued, started and released explicitly, so the schedule space is enumerated rather than sampled: all histories to depth 5 (quick) / 6 (thorough) over {template, replacement, bad template, data, advance TTL-1/1/TTL, start/finish/run callback} and random histories to depth 60 over 2 ids x 2 domains. After every action: no template dropped before last refresh + TTL, none stored once its lifetime elapsed and its callback ran, stored expiry = last refresh + TTL, exactly one armed timer (or a pending/in-flight callback) per stored template, no armed timer for removed ones.",
         "trusted: glue.HClock implements Go's documented timer semantics; verif hooks (injected clock, snapshot); at most one callback in flight at a time (the code between its two steps holds no lock)", "DESIGN.md section 3 C10"),
 "C11": ("property-based testing: exhaustive single/double cut enumeration of short streams plus rapid-generated message sequences and segmentations fed through an in-memory connection; oracle = reference framing and parsing of the stream up to the first invalid message",
         "Every single cut and every pair of cuts of eight short streams (valid, and with each kind of undecodable message), plus thousands (quick) to hundreds of thousands (thorough) of generated streams (messages up to ~65 KiB, an invalid message at any position, an incomplete tail) with dribbled, boundary-aligned, peek-window and random segmentations: the handler must deliver exactly the messages before the first undecodable one, each equal to the reference parse of its own bytes, close the connection, and leave a second connection unaffected.",
         "trusted: harness/refipfix; verif hook VerifHandleTCPClient; an in-memory net.Conn returning exactly the generated segments stands for the socket", "DESIGN.md section 3 C11"),
})
CLAIMED.update({
 "C20": ("model-based property testing: rapid-generated histories of arrivals, bursts past the cap, queries and resets driven in-package (go -overlay) with httptest, against a slice model; rendering oracle per field",
         "A fixed history that passes the 4096 cap three times with queries at the boundaries, one arrival per data type, and hundreds (quick) to thousands (thorough) of generated histories: the store never exceeds the cap and equals the last arrivals in order, GET /records returns the last min(n, stored) entries in both formats, invalid count/format give 400, wrong methods 405, reset empties, and every field of every record appears by name and canonical value text in the rendered entry. Sampled.",
         "trusted: go -overlay compiles the unmodified collector.go next to the driver; canonical value texts as listed in the evidence", "DESIGN.md section 3 C20"),
})
CLAIMED.update({
 "C19": ("property-based testing: rapid-generated message streams published through the producer into sarama's mock; payloads decoded by a hand-written protobuf wire reader (differential) and by the consumer-side decoder (round trip)",
         "Generated streams of template and data messages (0..20 records, any subset/order of the schema's elements plus unknown ones, IPv4/IPv6, full integer ranges, UTF-8 strings), both shipped schemas: exactly one Kafka message per data record in order on the configured topic, none for templates, payload = 4-byte big-endian length + exactly that many bytes of protobuf whose fields (read by an independent wire reader keyed by flow.proto's numbers) equal the record's values and the message's export time, sequence number, observation domain and exporter address; the consumer-side decoder accepts the payload and recovers the same values. Sampled.",
         "trusted: sarama's mock producer, the hand-written wire reader, net.IP.String for address text", "DESIGN.md section 3 C19"),
})
CLAIMED.update({
 "C18": ("exhaustive enumeration of the stated configuration matrix (generated cells, independent accept/refuse predicate as oracle), fault-style certificates minted in-process",
         "All distinct sessions of the matrix (383 cells) run in both tiers: library exporter (TLS x server max version 1.1/1.2/1.3, DTLS) against a harness-controlled server with each of 7 server certificates x 3 ServerName settings; harness TLS client with each of 4 client certificates x 3 max versions against the library collector with and without client CA; plaintext peers against encrypted endpoints and encrypted exporters against plaintext collectors. A predicate written from the statement decides each cell; refused cells must fail InitExportingProcess / deliver nothing, accepted ones must deliver through a session of version >= 1.2. Only the listed certificate faults; no cryptographic analysis.",
         "trusted: Go crypto/tls and pion/dtls as harness-side peers; in-process ECDSA certificates; a sentinel from a well-behaved peer proves the collector had processed the cell's connection", "DESIGN.md section 3 C18"),
})
CLAIMED.update({
 "C01": ("property-based testing: rapid-generated exporter->collector sessions over real loopback sockets on all four transports and both address families; round-trip oracle on the generated template and values, sentinel-based delivery (no timeouts as correctness signals); boundary preamble every run",
         "A boundary preamble (every transport x IPv4/IPv6 x variable lengths 0/1/254/255/256 and a message filled to exactly the transport's maximum) and thousands (quick) to >100k (thorough) generated sessions with templates of 1..40 elements from the whole registry and boundary-biased values: the collector must deliver the same observation domain, template fields (id, enterprise, type, length, name) in order, record count and bit-identical values. Sampled; value-space coverage comes from C15. DTLS messages above 8000 bytes are the open finding D10 (excluded, counted, probed every run).",
         "trusted: loopback ordering; a UDP datagram loss makes a case inconclusive; in-process certificates", "DESIGN.md section 3 C01"),
})
CLAIMED.update({
 "C14": ("randomized concurrency testing (schedule sampling) under the Go race detector: rapid-generated timings of application sends vs refresh rounds / real ticker / peer close / concurrent Close calls; oracle = reference parsing of every datagram, ordering and counting invariants over the history, goroutine-leak and crash checks",
         "Hundreds (quick) to thousands (thorough) of generated timing cases at GOMAXPROCS 2/4/16 plus cases with the real 1 s ticker: every datagram is a complete well-formed message that is the application's next message or a retransmission of a template already sent (byte-identical), application messages stay in order with correct sequence numbers, every template is retransmitted the right number of times, a tcp peer close makes sends fail (and stay failed), concurrent repeated Close calls return, later sends fail, nothing is written afterwards, no exporter goroutine remains, and the race detector is silent. Schedules are sampled, not enumerated: an interleaving that needs a rare timing can be missed.",
         "trusted: Go race detector (executed paths only); harness/refipfix; verif hooks VerifSendRefreshedTemplates = the ticker body, VerifWrapConn (a connection whose Close takes a while)", "DESIGN.md section 3 C14 and section 5"),
})
CLAIMED.update({
 "C12": ("randomized concurrency testing (schedule sampling) under the Go race detector: rapid-generated multi-client sessions over real sockets; oracle = per-connection ordering/exactly-once invariants over the delivery history, bounded-time shutdown, goroutine-leak and socket checks",
         "Hundreds (quick) to thousands (thorough) of generated sessions (1..24 clients x 0..60 messages, behaviours all/abrupt/idle/dribble, tcp/udp/tls, GOMAXPROCS 2/4/16, Stop after or during the traffic): per client exactly 0..n-1 in order over tcp/tls (increasing subsequence over udp), payloads never mixed between connections, connection count back to 0, Stop returns, no collector goroutine or bound socket afterwards, race detector silent. Schedules are sampled; a bug needing one specific interleaving may be missed.",
         "trusted: Go race detector; 30 s liveness bounds (normal: ms); the consumer drains continuously", "DESIGN.md section 3 C12 and section 5"),
 "C13": ("randomized concurrency testing (schedule sampling) under the Go race detector: rapid-generated concurrent programs (ingesting goroutines per reporting stream, worker pool, scans, queries, virtual-time shifts); oracle = conservation of delta counters, per-node final state, callback-count and GetNumFlows bounds over the history, plus porcupine linearizability checking of small recorded histories against a sequential specification",
         "Hundreds (quick) to thousands (thorough) of generated programs with up to 6 ingesting goroutines (two of them per inter-node flow) or the built-in worker pool, and up to 6 goroutines scanning/querying/shifting time: for every stream and delta counter, ingested = exported in callbacks + remaining (no lost or doubled update), per-node totals and end times equal the stream's last record, no flow exported more often than time advanced, GetNumFlows within the certainly/possibly created bounds, Stop returns, race detector silent. Small histories (2..4 goroutines x 1..6 operations) are additionally checked for linearizability with porcupine against a sequential specification. Schedules are sampled.",
         "trusted: Go race detector; the workload keeps each reporting stream in order (the library drops records older than the stream's latest by design)", "DESIGN.md section 3 C13 and section 5"),
})
HOOK_COMMITS = ["bde829d", "7b897fc", "836c091", "f1e6658"]

checks = []
for p in props:
    i = p["id"]
    if i in CLAIMED:
        tech, text, note, ref = CLAIMED[i]
        if i in ADDED:
            text = text.rstrip() + " " + ADDED[i]
        checks.append({
            "property_id": i,
            "quick_cmd": f"./check {i} quick",
            "thorough_cmd": f"./check {i} thorough",
            "evidence_file": f"/verif/evidence/{i}.json",
            "replay_cmd_template": f"./check {i} --replay {{path}}",
            "engine": "harness",
            "level_claimed": {"category": "exploration", "text": text, "design_ref": ref},
            "level_note": note,
            "technique": tech,
        })
na = [{"property_id": p["id"], "reason": "check not built yet in this round (planned: see DESIGN.md section 3); not a claim that the technique cannot apply"}
      for p in props if p["id"] not in CLAIMED]
m = {
 "version": 1,
 "setup_cmd": "./setup.sh",
 "hooks": {
  "guard": "verif",
  "enable": "go build tag: every check builds /repo through harness/go.mod's replace directive with `go test -tags verif`; hook files are pkg/*/verif_hooks.go (//go:build verif)",
  "baseline_off_cmd": "cd /repo && GOFLAGS=-mod=mod GOPROXY=off GOSUMDB=off go test -json -vet=off -count=1 -timeout 25m ./...",
  "source_commits": HOOK_COMMITS,
  "add_only": True,
 },
 "engines": [{"name": "harness", "path": "/verif/harness", "serves_properties": sorted(CLAIMED),
              "kind_free_text": "Go module with pgregory.net/rapid v1.3.0 generators, an independent reference IPFIX codec (refipfix), reference models, and `go test -fuzz` targets; driven by /verif/check"}],
 "checks": checks,
 "not_applicable": na,
 "notes": "exit 0 = held on everything explored (KNOWN-FINDING lines possible), 1 = VIOLATION line with replay, 2 = inconclusive (build failure, budget, infrastructure). Known findings: /verif/known_findings.json.",
}
json.dump(m, open(os.path.join(ROOT, "MANIFEST.json"), "w"), indent=1)
print("claimed:", sorted(CLAIMED), "not_applicable:", len(na))
